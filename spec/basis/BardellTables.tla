---------------------------- MODULE BardellTables ----------------------------
(***************************************************************************)
(* Property C10 as a state machine: a client asks the basis library for a  *)
(* quantity (a request) and gets the exact answer (with the scale of the   *)
(* tolerance rule).  Requests:                                             *)
(*   fun   d, xi, flags            values of the d-th derivatives, all i   *)
(*   full  di, dj, xf, yf          integral over [-1,1] of f_i^(di) g_j^(dj)*)
(*   sub   di, dj, x1, x2, xf, yf  the same over [x1, x2]                  *)
(*   map   di, dj, c0, c1, xf, yf  integral of f_i^(di)(xi) g_j^(dj)(c0+c1 xi)*)
(* xf / yf are the four edge flags of the first / second function.         *)
(* The lattice of requests enumerated by TLC is Requests; the trace        *)
(* specification re-uses Answer for requests outside the lattice too.      *)
(***************************************************************************)
EXTENDS Bardell, FiniteSets

CONSTANTS Tier          \* "quick" | "thorough" : size of the lattice

VARIABLES req, out
vars == <<req, out>>

Idx == 0..(NFun-1)

(* flag patterns: all on, the distinct-primes pattern (every mis-wired flag
   shows), and 0/1 patterns *)
P(n) == RFromInt(n)
FlagPatterns ==
    { <<<<P(1),P(1),P(1),P(1)>>, <<P(1),P(1),P(1),P(1)>>>>,
      <<<<P(2),P(3),P(5),P(7)>>, <<P(11),P(13),P(17),P(19)>>>>,
      <<<<P(1),P(0),P(1),P(0)>>, <<P(0),P(1),P(1),P(0)>>>> }
PrimeFlags == <<<<P(2),P(3),P(5),P(7)>>, <<P(11),P(13),P(17),P(19)>>>>
SubFlagPatterns == IF Tier = "quick" THEN {PrimeFlags} ELSE FlagPatterns
QPts == { RQ(-1,1), RQ(-1,2), RQ(0,1), RQ(1,5), RQ(7,8), RQ(1,1) }
TPts == QPts \cup { RQ(-3,4), RQ(-1,3), RQ(1,2) }
Pts == IF Tier = "quick" THEN QPts ELSE TPts
Intervals == { <<a, b>> \in Pts \X Pts : RLe(a, b) }
QInt == { <<RQ(-1,1), RQ(1,1)>>, <<RQ(-1,2), RQ(1,5)>>, <<RQ(0,1), RQ(0,1)>>,
          <<RQ(1,5), RQ(1,1)>>, <<RQ(-1,1), RQ(-1,2)>>, <<RQ(-1,2), RQ(7,8)>> }
SubIntervals == IF Tier = "quick" THEN QInt ELSE Intervals
Maps == IF Tier = "quick"
        THEN { <<RQ(0,1), RQ(1,1)>>, <<RQ(1,4), RQ(1,2)>>, <<RQ(-1,2), RQ(-1,2)>>, <<RQ(1,3), RQ(0,1)>> }
        ELSE { <<c0, c1>> \in {RQ(0,1), RQ(1,4), RQ(-1,2), RQ(1,3), RQ(-2,3)} \X
                              {RQ(1,1), RQ(1,2), RQ(-1,2), RQ(0,1), RQ(-1,3), RQ(1,4)} :
                   RLe(RAdd(RAbs(c0), RAbs(c1)), ROne) }
FullFamilies == { <<0,0>>, <<0,1>>, <<0,2>>, <<1,1>>, <<1,2>>, <<2,2>> }   \* ff ffxi ffxixi fxifxi fxifxixi fxixifxixi
MapFamilies  == { <<0,0>>, <<0,1>>, <<1,0>>, <<1,1>>, <<2,2>> }            \* ff ffxi fxif fxifxi fxixifxixi

Requests ==
    [kind : {"fun"}, d : 0..2, xi : Pts, xf : {fp[1] : fp \in FlagPatterns}]
    \cup [kind : {"full"}, fam : FullFamilies, fl : FlagPatterns]
    \cup [kind : {"sub"}, fam : FullFamilies, iv : SubIntervals, fl : SubFlagPatterns]
    \cup [kind : {"map"}, fam : MapFamilies, cc : Maps, fl : SubFlagPatterns]

(* --- answers: <<value, scale>> per index / index pair ------------------- *)
Matrix(f(_,_)) == Fn([i \in Idx |-> Fn([j \in Idx |-> f(i, j)])])

Answer(r) ==
    CASE r.kind = "fun" ->
           Fn([i \in Idx |-> <<FVal(i, r.d, r.xi, r.xf), FScale(i, r.d, r.xi, r.xf)>>])
      [] r.kind = "full" ->
           LET g(i, j) == LET fl == RMul(Flag(i, r.fl[1]), Flag(j, r.fl[2]))
                              v  == RMul(fl, IF_(i, r.fam[1], j, r.fam[2]))
                          IN <<v, RAbs(v)>>     \* a literal constant in the code: relative to itself
           IN Matrix(g)
      [] r.kind = "sub" ->
           LET g(i, j) == LET fl == RMul(Flag(i, r.fl[1]), Flag(j, r.fl[2]))
                          IN <<RMul(fl, IntSub(i, r.fam[1], j, r.fam[2], r.iv[1], r.iv[2])),
                               RMul(RAbs(fl), IntSubScale(i, r.fam[1], j, r.fam[2], r.iv[1], r.iv[2]))>>
           IN Matrix(g)
      [] r.kind = "map" ->
           LET comp  == Fn([j \in Idx |-> PComposeLin(D(j, r.fam[2]), r.cc[1], r.cc[2])])
               acomp == Fn([j \in Idx |-> PComposeLin(PAbs(D(j, r.fam[2])), RAbs(r.cc[1]), RAbs(r.cc[2]))])
               g(i, j) == LET fl == RMul(Flag(i, r.fl[1]), Flag(j, r.fl[2]))
                              q  == PMul(D(i, r.fam[1]), comp[j])
                              qa == PMul(PAbs(D(i, r.fam[1])), acomp[j])
                          IN <<RMul(fl, PIntegrate(q, MinusOne, ROne)),
                               RMul(RAbs(fl), PIntegrate(qa, MinusOne, ROne))>>
           IN Matrix(g)

None == [kind |-> "none"]
Init == req = None /\ out = <<>>
Ask(r) == /\ req' = r
          /\ out' = Answer(r)
Next == \E r \in Requests : Ask(r)
Spec == Init /\ [][Next]_vars
(* the bounded model asks one lattice request per behaviour *)
MCNext == req = None /\ Next
MCSpec == Init /\ [][MCNext]_vars

(* --- consequences checked by TLC on every reachable state ---------------- *)
Val(i, j) == out[i][j][1]
Scl(i, j) == out[i][j][2]

(* the scale dominates the value *)
ScaleDominates ==
    req.kind \in {"full", "sub", "map"} =>
        \A i \in Idx, j \in Idx : RLe(RAbs(Val(i,j)), Scl(i,j))
(* sub-interval family on the whole interval = full-interval table *)
SubOnWholeIsFull ==
    (req.kind = "sub" /\ req.iv = <<MinusOne, ROne>>) =>
        LET F == Answer([kind |-> "full", fam |-> req.fam, fl |-> req.fl])
        IN \A i \in Idx, j \in Idx : Val(i, j) = F[i][j][1]
(* additivity over a split point *)
SubAdditive ==
    req.kind = "sub" =>
      \A c \in {x \in Pts : RLe(req.iv[1], x) /\ RLe(x, req.iv[2])} :
        LET A == Answer([req EXCEPT !.iv = <<req.iv[1], c>>])
            B == Answer([req EXCEPT !.iv = <<c, req.iv[2]>>])
        IN \A i \in Idx, j \in Idx : RAdd(A[i][j][1], B[i][j][1]) = Val(i, j)
(* degenerate interval gives zero *)
SubDegenerate ==
    (req.kind = "sub" /\ req.iv[1] = req.iv[2]) => \A i \in Idx, j \in Idx : RIsZero(Val(i,j))
(* integration by parts ties the families together:
   Int f_i g_j' + Int f_i' g_j = [f_i g_j] at the ends *)
ByParts ==
    (req.kind = "sub" /\ req.fam = <<0,1>>) =>
      \A i \in Idx, j \in Idx :
        LET fl == RMul(Flag(i, req.fl[1]), Flag(j, req.fl[2]))
            other == RMul(fl, IntSub(i, 1, j, 0, req.iv[1], req.iv[2]))
            bnd == RMul(fl, RSub(RMul(PEval(D(i,0), req.iv[2]), PEval(D(j,0), req.iv[2])),
                                 RMul(PEval(D(i,0), req.iv[1]), PEval(D(j,0), req.iv[1]))))
        IN RAdd(Val(i,j), other) = bnd
(* identity map reproduces the full table; constant map gives g_j(c0) * Int f_i *)
MapIdentity ==
    (req.kind = "map" /\ req.cc = <<RZero, ROne>>) =>
        \A i \in Idx, j \in Idx :
            Val(i,j) = RMul(RMul(Flag(i, req.fl[1]), Flag(j, req.fl[2])),
                            IF_(i, req.fam[1], j, req.fam[2]))
(* f_i'' = Legendre P_(i-2): the hierarchical functions are orthogonal in the
   second-derivative family, and vanish with their slope at both ends *)
Orthogonal ==
    (req.kind = "full" /\ req.fam = <<2,2>>) =>
        \A i \in Idx, j \in Idx : (i >= 4 /\ j >= 4 /\ i # j) => RIsZero(Val(i,j))
EdgeValues ==
    req.kind = "fun" /\ req.d \in {0,1} /\ req.xi \in {MinusOne, ROne} =>
        \A i \in Idx : i >= 4 => RIsZero(out[i][1])
HermiteEnds ==   \* f0(-1)=1, f1'(-1)=1/2, f2(1)=1, f3'(1)=1/2 (times flags), the other end data zero
    req.kind = "fun" /\ req.xi \in {MinusOne, ROne} /\ req.d \in {0,1} =>
        \A i \in 0..(IF NFun < 4 THEN NFun-1 ELSE 3) :
            out[i][1] = IF (i = 0 /\ req.d = 0 /\ req.xi = MinusOne) \/ (i = 2 /\ req.d = 0 /\ req.xi = ROne)
                        THEN req.xf[i+1]
                        ELSE IF (i = 1 /\ req.d = 1 /\ req.xi = MinusOne) \/ (i = 3 /\ req.d = 1 /\ req.xi = ROne)
                        THEN RMul(RQ(1,2), req.xf[i+1]) ELSE RZero
=============================================================================
