------------------------------ MODULE LamObject ------------------------------
(***************************************************************************)
(* The Laminate object of compmech/composite/laminate.py as a state        *)
(* machine: beyond read_stack (Laminate.tla, property C01) the object can  *)
(* be built from lamination parameters, re-derived, forced orthotropic /   *)
(* symmetric / balanced, and asked for its equivalent moduli.  One action  *)
(* per public method; the reported matrices A, B, D, E (and the 6x6 / 8x8  *)
(* arrangements, which the binding checks block by block) are the state.   *)
(*                                                                         *)
(* Lamination parameters of a stack (z from the reference surface, h the   *)
(* total thickness, f = (cos 2t, sin 2t, cos 4t, sin 4t)):                 *)
(*   xiA = 1/h INT f dz   xiB = 4/h^2 INT z f dz   xiD = 12/h^3 INT z^2 f  *)
(*   xiE = 1/h INT f dz                                                    *)
(* and for a single material with plane-stress invariants U1..U5           *)
(*   A = h (U . xiA),  B = h^2/4 (U . xiB),  D = h^3/12 (U . xiD).         *)
(* LPRoundTrip states that this description reproduces the through-        *)
(* thickness integral of LaminateOps (checked by TLC on the model itself). *)
(* dev: named deviations of the package (known findings).                  *)
(***************************************************************************)
EXTENDS LaminateOps

CONSTANTS LDirs, LThicks, LMats, LOffsets, LMaxPlies, Deviations
VARIABLES src,      \* "none" | "stack" | "lp"
          stk, off, \* plies and offset (src = "stack")
          lp,       \* [A, B, D, E : 4 lamination parameters each, h, mat] (src = "lp")
          out,      \* [A, B, D, E]
          mod,      \* <<e1, e2, g12, nu12, nu21>> once asked for, else <<>>
          last
lvars == <<src, stk, off, lp, out, mod, last>>

Four == RFromInt(4)
Eight == RFromInt(8)
(* ---- trigonometric moments of a ply direction --------------------------- *)
Cos2(dir) == RSub(C2(dir), S2(dir))
Sin2(dir) == RMul(Two, CS(dir))
Cos4(dir) == RSub(RMul(Cos2(dir), Cos2(dir)), RMul(Sin2(dir), Sin2(dir)))
Sin4(dir) == RMul(Two, RMul(Sin2(dir), Cos2(dir)))
FVec(dir) == <<Cos2(dir), Sin2(dir), Cos4(dir), Sin4(dir)>>

RECURSIVE LPSum(_,_,_,_,_)
LPSum(stack, z, p, i, k) ==     \* SUM_k (z_k^p - z_(k-1)^p)/p * f_i(theta_k)
    IF k > Len(stack) THEN RZero
    ELSE RAdd(RMul(Wz(z, k, p), FVec(stack[k].dir)[i]), LPSum(stack, z, p, i, k + 1))
LPOf(stack, d) ==
    LET z == Zs(stack, d)   hh == Thickness(stack)
        v(p, c) == Fn([i \in 1..4 |-> RMul(c, LPSum(stack, z, p, i, 1))])
    IN [A |-> v(1, RInv(hh)), B |-> v(2, RDiv(Four, RMul(hh, hh))),
        D |-> v(3, RDiv(RFromInt(12), RMul(hh, RMul(hh, hh)))), E |-> v(1, RInv(hh)),
        h |-> hh, mat |-> stack[1].mat]

(* ---- material invariants --------------------------------------------------- *)
(* in-plane stiffnesses <<q11, q22, q12, q66>>: plane stress (what the definition asks for), or the
   three-dimensional stiffnesses the package's MatLamina uses on this route (deviation) *)
InPlaneQ(mat, dev) ==
    LET m == Complete(mat)
    IN IF "KF_C01_LPUses3DStiffness" \in dev
       THEN LET e1 == m[1]  e2 == m[2]  e3 == m[7]  nu12 == m[3]  nu13 == m[8]  nu23 == m[9]
                nu21 == RDiv(RMul(nu12, e2), e1)  nu31 == RDiv(RMul(nu13, e3), e1)  nu32 == RDiv(RMul(nu23, e3), e2)
                den == RSub(RSub(RSub(RSub(RSub(ROne, RMul(nu12, nu21)), RMul(nu13, nu31)), RMul(nu23, nu32)),
                                 RMul(nu12, RMul(nu23, nu31))), RMul(nu13, RMul(nu21, nu32)))
            IN << RDiv(RMul(e1, RSub(ROne, RMul(nu23, nu32))), den),
                  RDiv(RMul(e2, RSub(ROne, RMul(nu13, nu31))), den),
                  RDiv(RMul(e1, RAdd(nu21, RMul(nu23, nu31))), den), m[4] >>
       ELSE LET q == PlaneStressQ(mat) IN << q[1][1], q[2][2], q[1][2], q[3][3] >>
Invariants(mat, dev) ==
    LET q == InPlaneQ(mat, dev)   q11 == q[1]  q22 == q[2]  q12 == q[3]  q66 == q[4]
        u1 == RDiv(RAdd(RAdd(RMul(RFromInt(3), q11), RMul(RFromInt(3), q22)), RAdd(RMul(Two, q12), RMul(Four, q66))), Eight)
        u2 == RDiv(RSub(q11, q22), Two)
        u3 == RDiv(RSub(RAdd(q11, q22), RAdd(RMul(Two, q12), RMul(Four, q66))), Eight)
        u4 == RDiv(RSub(RAdd(RAdd(q11, q22), RMul(RFromInt(6), q12)), RMul(Four, q66)), Eight)
        m == Complete(mat)
    IN [u1 |-> u1, u2 |-> u2, u3 |-> u3, u4 |-> u4, u5 |-> RDiv(RSub(u1, u4), Two),
        u6 |-> RDiv(RAdd(m[6], m[5]), Two), u7 |-> RDiv(RSub(m[6], m[5]), Two)]    \* (g23 + g13)/2, (g23 - g13)/2

(* 3x3 matrix of one lamination-parameter vector x (4 entries) with leading constant x0 (1 for A, D; 0 for B) *)
M3FromLP(u, x0, x) ==
    LET a11 == RAdd(RMul(u.u1, x0), RAdd(RMul(u.u2, x[1]), RMul(u.u3, x[3])))
        a22 == RAdd(RMul(u.u1, x0), RAdd(RNeg(RMul(u.u2, x[1])), RMul(u.u3, x[3])))
        a12 == RSub(RMul(u.u4, x0), RMul(u.u3, x[3]))
        a66 == RSub(RMul(u.u5, x0), RMul(u.u3, x[3]))
        a16 == RAdd(RMul(RDiv(u.u2, Two), x[2]), RMul(u.u3, x[4]))
        a26 == RSub(RMul(RDiv(u.u2, Two), x[2]), RMul(u.u3, x[4]))
    IN M3(a11, a12, a16, a12, a22, a26, a16, a26, a66)
FromLP(p, dev) ==
    LET u == Invariants(p.mat, dev)
        h2 == RMul(p.h, p.h)
        e44 == RMul(p.h, RAdd(u.u6, RMul(u.u7, p.E[1])))       \* yz-yz
        e55 == RMul(p.h, RSub(u.u6, RMul(u.u7, p.E[1])))       \* xz-xz
        e45 == RMul(p.h, RNeg(RMul(u.u7, p.E[2])))
    IN [A |-> MScale(p.h, M3FromLP(u, ROne, p.A)),
        B |-> MScale(RDiv(h2, Four), M3FromLP(u, RZero, p.B)),
        D |-> MScale(RDiv(RMul(h2, p.h), RFromInt(12)), M3FromLP(u, ROne, p.D)),
        E |-> IF "KF_C01_LPShearSwapped" \in dev THEN << <<e55, e45>>, <<e45, e44>> >>
              ELSE << <<e44, e45>>, <<e45, e55>> >>]
(* magnitude of the terms, for the tolerance rule of the binding *)
FromLPScale(p) ==
    LET q == SumAbsRows(PlaneStressQ(p.mat), 1)
        qs == SumAbsRows(ShearQ(p.mat), 1)
        w(x) == RAdd(ROne, RAbsSum(x))
        h2 == RMul(p.h, p.h)
        c(s, n) == Fn([i \in 1..n |-> Fn([j \in 1..n |-> s])])
    IN [A |-> c(RMul(RMul(p.h, q), w(p.A)), 3), B |-> c(RMul(RMul(RDiv(h2, Four), q), w(p.B)), 3),
        D |-> c(RMul(RMul(RDiv(RMul(h2, p.h), RFromInt(12)), q), w(p.D)), 3), E |-> c(RMul(RMul(p.h, qs), w(p.E)), 2)]

(* ---- forcing ------------------------------------------------------------------ *)
Ortho3(M) == M3(M[1][1], M[1][2], RZero, M[2][1], M[2][2], RZero, RZero, RZero, M[3][3])
ForcedOrtho(o) == [o EXCEPT !.A = Ortho3(o.A), !.B = Ortho3(o.B), !.D = Ortho3(o.D)]
ForcedSym(o) == [o EXCEPT !.B = MZero(3, 3)]
(* equivalent membrane moduli from the inverse of the 6x6 matrix *)
UnitCol(k) == Fn([i \in 1..6 |-> IF i = k THEN ROne ELSE RZero])
Moduli(o, hh) ==
    LET abd == ABD6(o)
        c1 == Solve(abd, UnitCol(1))  c2 == Solve(abd, UnitCol(2))  c3 == Solve(abd, UnitCol(3))
        a11 == c1[1]  a12 == c2[1]  a22 == c2[2]  a33 == c3[3]
    IN << RInv(RMul(hh, a11)), RInv(RMul(hh, a22)), RInv(RMul(hh, a33)), RNeg(RDiv(a12, a11)), RNeg(RDiv(a12, a22)) >>

(* ---- actions: one per public method ------------------------------------------- *)
NoLP == [h |-> RZero]
NoOut == [A |-> <<>>, B |-> <<>>, D |-> <<>>, E |-> <<>>]
LInit == src = "none" /\ stk = <<>> /\ off = RZero /\ lp = NoLP /\ out = NoOut /\ mod = <<>> /\ last = "none"
ReadStack(s, d) == /\ src' = "stack" /\ stk' = s /\ off' = d /\ lp' = NoLP /\ out' = ABDE(s, d) /\ mod' = <<>>
                   /\ last' = "read_stack"
ReadLP(p) == /\ src' = "lp" /\ stk' = <<>> /\ off' = RZero /\ lp' = p /\ out' = FromLP(p, Deviations) /\ mod' = <<>>
             /\ last' = "read_lp"
(* calc_constitutive_matrix again on an object that has plies: forcing is undone *)
Recalc == /\ src = "stack" /\ out' = ABDE(stk, off) /\ last' = "recalc" /\ UNCHANGED <<src, stk, off, lp, mod>>
(* calc_lamination_parameters on an object that has plies (single material): lp as defined above *)
CalcLP == /\ src = "stack" /\ lp' = LPOf(stk, off) /\ last' = "calc_lp" /\ UNCHANGED <<src, stk, off, out, mod>>
ForceBalancedLP == /\ src = "lp" /\ lp' = [lp EXCEPT !.A = <<lp.A[1], RZero, lp.A[3], RZero>>]
                   /\ out' = FromLP(lp', Deviations) /\ last' = "force_balanced_lp" /\ UNCHANGED <<src, stk, off, mod>>
ForceSymmetricLP == /\ src = "lp" /\ lp' = [lp EXCEPT !.B = <<RZero, RZero, RZero, RZero>>]
                    /\ out' = FromLP(lp', Deviations) /\ last' = "force_symmetric_lp" /\ UNCHANGED <<src, stk, off, mod>>
(* refused (RuntimeError, nothing changes) on laminates with an offset *)
ForceOrthotropic == /\ src # "none"
                    /\ IF off = RZero THEN out' = ForcedOrtho(out) /\ last' = "force_orthotropic"
                       ELSE out' = out /\ last' = "refused"
                    /\ UNCHANGED <<src, stk, off, lp, mod>>
ForceSymmetric == /\ src # "none"
                  /\ IF off = RZero THEN out' = ForcedSym(out) /\ last' = "force_symmetric"
                     ELSE out' = out /\ last' = "refused"
                  /\ UNCHANGED <<src, stk, off, lp, mod>>
Thick == IF src = "stack" THEN Thickness(stk) ELSE lp.h
EquivModulus == /\ src # "none" /\ mod' = Moduli(out, Thick) /\ last' = "equivalent_modulus"
                /\ UNCHANGED <<src, stk, off, lp, out>>

LPly == [dir : LDirs, t : LThicks, mat : LMats]
LStacks == UNION { [1..n -> LPly] : n \in 1..LMaxPlies }
SingleMat(s) == \A k \in 1..Len(s) : s[k].mat = s[1].mat
LNext == \/ \E s \in LStacks, d \in LOffsets : ReadStack(s, d)
         \/ \E s \in LStacks : SingleMat(s) /\ ReadLP(LPOf(s, RZero))
         \/ Recalc \/ ForceBalancedLP \/ ForceSymmetricLP \/ ForceOrthotropic \/ ForceSymmetric \/ EquivModulus
         \/ (src = "stack" /\ SingleMat(stk) /\ CalcLP)
LSpec == LInit /\ [][LNext]_lvars

(* ---- consequences --------------------------------------------------------------- *)
Built == src # "none"
AdmStack(s) == \A k \in 1..Len(s) : Admissible(s[k].mat) /\ RSign(s[k].t) > 0
(* whatever was forced, the reported matrices stay symmetric and (admissible plies) positive definite:
   forcing keeps principal sub-blocks of a positive definite matrix *)
LSymmetric == Built => MSym(ABD6(out)) /\ MSym(out.E)
LPosDef == (src = "stack" /\ AdmStack(stk)) => PosDef(ABD6(out)) /\ PosDef(out.E)
(* the lamination-parameter description of a single-material stack about its mid-plane reproduces the
   through-thickness integral (with the definition's plane-stress invariants, no deviations) *)
LPRoundTripOf(s) == LET a == FromLP(LPOf(s, RZero), {})  b == ABDE(s, RZero)
                    IN a.A = b.A /\ a.B = b.B /\ a.D = b.D /\ a.E = b.E
LPRoundTrip == (src = "stack" /\ SingleMat(stk)) => LPRoundTripOf(stk)
(* lamination parameters lie in [-1, 1] and those of B vanish for a mid-plane symmetric stack *)
InUnit(x) == RSign(RSub(ROne, RAbs(x))) >= 0
LPBounds == (src = "lp" /\ last = "read_lp") => \A i \in 1..4 : InUnit(lp.A[i]) /\ InUnit(lp.D[i]) /\ InUnit(lp.E[i])
(* a single 0-degree ply about its mid-plane reports its own engineering constants (with an offset the
   membrane compliance of the 6x6 inverse also sees the bending coupling d*A) *)
SinglePlyModuli ==
    (src = "stack" /\ Len(stk) = 1 /\ stk[1].dir = <<0, 1>> /\ off = RZero /\ last = "equivalent_modulus") =>
        LET m == Complete(stk[1].mat) IN mod[1] = m[1] /\ mod[2] = m[2] /\ mod[3] = m[4] /\ mod[4] = m[3]
(* reciprocity of the equivalent constants: nu12 / e1 = nu21 / e2 *)
Reciprocity == (mod # <<>> /\ last = "equivalent_modulus") => RMul(mod[4], mod[2]) = RMul(mod[5], mod[1])
(* action properties *)
ForceLaws == [][/\ (last' = "force_symmetric" => out'.B = MZero(3, 3) /\ out'.A = out.A /\ out'.D = out.D /\ out'.E = out.E)
                /\ (last' = "force_orthotropic" =>
                       /\ \A i \in 1..2 : out'.A[i][3] = RZero /\ out'.B[i][3] = RZero /\ out'.D[i][3] = RZero
                       /\ \A i, j \in 1..2 : out'.A[i][j] = out.A[i][j] /\ out'.D[i][j] = out.D[i][j]
                       /\ out'.A[3][3] = out.A[3][3] /\ out'.E = out.E)
                /\ (last' = "refused" => out' = out)
                /\ (last' = "recalc" => out' = ABDE(stk, off))]_lvars
=============================================================================
