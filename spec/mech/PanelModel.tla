------------------------------ MODULE PanelModel ------------------------------
(***************************************************************************)
(* A panel object as a state machine: it is defined once (Define) and then *)
(* asked for matrices (Eval).  The answer is a function of the definition  *)
(* and the request only (PanelOps).  Properties C02, C03, C04, C19 are the  *)
(* definitions in PanelOps; their listed consequences are the invariants    *)
(* below, checked by TLC on every reachable state of the bounded model and  *)
(* on every state of a validated trace.                                     *)
(*                                                                         *)
(* A definition arrives as a record `pd` (panel description):               *)
(*   model, a, b, r, sina, cosa, m, n, fl, stack, off, y1, y2, mu, Ncte     *)
(* and is completed by Complete(pd) with F, Fs, h from the laminate module. *)
(***************************************************************************)
EXTENDS PanelNL

CONSTANTS Deviations      \* set of named deviations (known findings) switched on; {} = the literal properties

VARIABLES def, req, out
pvars == <<def, req, out>>

(* requests: [q |-> "k0"], [q |-> "kG0", N |-> <<Nxx,Nyy,Nxy>>], [q |-> "kM"],
   [q |-> "kA", flow, beta, gamma], [q |-> "cA", aeromu];  plus a placement
   [size, row0, col0] (size = 0 means the panel's own size, no offset) *)
QuantityDev(d, r, dev) ==
    CASE r.q = "k0"  -> K0(d)
      (* the same matrix from the numerically integrated kernel at the undeformed state: exact value, quadrature scale *)
      [] r.q = "k0num" -> LET A == K0(d)  S == QuadScale(d)
                          IN Fn([k \in 1..Len(A) |-> Fn([l \in 1..Len(A) |-> <<A[k][l][1], RAdd(A[k][l][2], S[k][l])>>])])
      [] r.q = "kG0" -> KG0(d, r.N)
      [] r.q = "kM"  -> KM(d, dev)
      [] r.q = "kA"  -> KA(d, r.flow, r.beta, r.gamma, dev)
      [] r.q = "cA"  -> CA(d, r.aeromu)
      [] r.q = "kAmach" -> LET co == AeroCoeffs(r.mach, r.root, r.rho, r.V, r.ainf, IF d.model = "cpanel" THEN d.r ELSE RZero)
                           IN KA(d, r.flow, co.beta, IF r.flow = "x" THEN co.gamma ELSE RZero, dev)
      (* fields: one tuple of <<value, scale>> per point *)
      [] r.q = "uvw"    -> Fn([k \in 1..Len(r.pts) |-> Uvw(d, r.c, r.pts[k][1], r.pts[k][2])])
      [] r.q = "strain" -> Fn([k \in 1..Len(r.pts) |-> StrainAt(d, r.c, r.pts[k][1], r.pts[k][2], r.NL, dev)])
      [] r.q = "stress" -> Fn([k \in 1..Len(r.pts) |-> StressAt(d, r.c, r.pts[k][1], r.pts[k][2], r.NL, dev)])
      [] r.q = "fext"   -> Fext(d, r.forces, r.forcesInc, r.inc)
      (* non-linear quantities at a state c *)
      [] r.q = "fint"   -> FintT(d, r.c, r.taper)
      [] r.q = "kT"     -> KTT(d, r.c, r.taper)
      [] r.q = "kGc"    -> KGStateT(d, r.c, r.NL, r.taper)
IsMatrixReq(r) == r.q \in {"k0", "k0num", "kG0", "kM", "kA", "cA", "kAmach", "kT", "kGc"}
Placed(M, r) == IF r.size = 0 THEN M
                ELSE IF r.q \in {"fext", "fint"} THEN PlaceVec(M, r.size, r.col0) ELSE Place(M, r.size, r.row0, r.col0)
Quantity(d, r) == Placed(QuantityDev(d, r, Deviations), r)

NoDef == [model |-> "none"]
NoReq == [q |-> "none"]
PInit == def = NoDef /\ req = NoReq /\ out = <<>>
Define(pd) == /\ def' = CompleteDef(pd) /\ req' = NoReq /\ out' = <<>>
Eval(r) == /\ def # NoDef
           /\ req' = r /\ out' = Quantity(def, r) /\ UNCHANGED def

(* ---- consequences ------------------------------------------------------------ *)
N_ == Len(out)
OutVals == Vals(out)
IsW(d, idx) == DofOf(d, idx) = W
Block(r) == IF r.size = 0 THEN <<0, 0>> ELSE <<r.row0, r.col0>>
InBlock(i) == i > Block(req)[1] /\ i <= Block(req)[1] + Size(def)
Loc(i) == i - Block(req)[1]          \* index inside the panel's own block (row0 = col0 in all placements used)

Evaluated == req # NoReq /\ IsMatrixReq(req)
FieldEvaluated == req # NoReq /\ ~IsMatrixReq(req)
(* k0, kG0, kM, cA are symmetric *)
SymmetricOut == (Evaluated /\ req.q \in {"k0", "kG0", "kM", "cA"}) => MSym(OutVals)
(* the scale dominates the value *)
ScaleDominatesOut == Evaluated => \A i \in 1..N_, j \in 1..N_ : RLe(RAbs(out[i][j][1]), out[i][j][2])
(* geometric stiffness and aerodynamic matrices touch out-of-plane amplitudes only *)
MachRootOk == (Evaluated /\ req.q = "kAmach") => RMul(req.root, req.root) = RSub(RMul(req.mach, req.mach), ROne)
OnlyW == (Evaluated /\ req.q \in {"kG0", "kA", "cA", "kAmach"}) =>
            \A i \in 1..N_, j \in 1..N_ :
                ~(InBlock(i) /\ InBlock(j) /\ IsW(def, Loc(i)) /\ IsW(def, Loc(j))) => out[i][j] = PairZero
(* nothing outside the placement block *)
OnlyBlock == Evaluated => \A i \in 1..N_, j \in 1..N_ : ~(InBlock(i) /\ InBlock(j)) => out[i][j] = PairZero
(* kG0 is linear in the three resultants: kG0(N) = Nxx kG0(1,0,0) + Nyy kG0(0,1,0) + Nxy kG0(0,0,1) *)
Unit3(k) == <<IF k = 1 THEN ROne ELSE RZero, IF k = 2 THEN ROne ELSE RZero, IF k = 3 THEN ROne ELSE RZero>>
GeoLinear == (Evaluated /\ req.q = "kG0" /\ req.size = 0) =>
    LET g1 == Vals(KG0(def, Unit3(1)))  g2 == Vals(KG0(def, Unit3(2)))  g3 == Vals(KG0(def, Unit3(3)))
    IN OutVals = MAdd(MScale(req.N[1], g1), MAdd(MScale(req.N[2], g2), MScale(req.N[3], g3)))
(* a constant membrane pre-load adds exactly the matching initial-stress matrix *)
PreloadAdds == (Evaluated /\ req.q = "k0" /\ req.size = 0) =>
    OutVals = MAdd(Vals(K0Lin(def)), Vals(KG0(def, def.Ncte)))
(* sub-intervals that tile the width add up: [y1,y2] = [y1,c] + [c,y2] *)
TilePts(d) == IF d.model = "kpanel"
              THEN (IF d.m * d.n <= 8 THEN { RAdd(d.y1, RMul(RQ(1,3), RSub(d.y2, d.y1))) } ELSE {})  \* 41 sections: costly
              ELSE { RAdd(d.y1, RMul(f, RSub(d.y2, d.y1))) : f \in {RQ(1,3), RQ(1,2)} }
TilesAddUp == (Evaluated /\ req.q \in {"k0", "kG0", "kM"} /\ req.size = 0) =>
    \A c \in TilePts(def) :
        OutVals = MAdd(Vals(QuantityDev([def EXCEPT !.y2 = c], req, Deviations)),
                       Vals(QuantityDev([def EXCEPT !.y1 = c], req, Deviations)))
(* positive semi-definite: exact quadratic forms of probe vectors are >= 0 (k0, kM) *)
Probe(k, n) == Fn([i \in 1..n |-> RFromInt(((i * (k + 2) + k * k) % 7) - 3)])
ProbesNonNegative == (Evaluated /\ req.q \in {"k0", "kM"} /\ req.size = 0
                      /\ (req.q = "k0" => def.Ncte = <<RZero, RZero, RZero>>)) =>
    \A k \in 1..4 : RSign(Quad(OutVals, Probe(k, N_))) >= 0
(* positive definite on the active amplitudes (those with a non-zero diagonal): mass matrix *)
Active == LET idx == SelectSeq(Fn([i \in 1..N_ |-> i]), LAMBDA i : ~RIsZero(out[i][i][1])) IN idx
MassPosDef == (Evaluated /\ req.q = "kM" /\ req.size = 0 /\ RSign(def.mu) > 0) =>
    PosDef(MSubMat(OutVals, Active, Active))
(* rigid translations of an unrestrained flat panel: zero strain energy; kinetic form = mu h area.
   With all four edge functions on, 1 = f0 + f2 along each axis. *)
AllFree(d) == \A dof \in Dofs(d.model) : d.fl[dof][1] = UnitFlags /\ d.fl[dof][2] = UnitFlags
RigidVec(d, dof) == Fn([idx \in 1..Size(d) |->
    IF DofOf(d, idx) = dof /\ IOf(d, idx) \in {0, 2} /\ JOf(d, idx) \in {0, 2} THEN ROne ELSE RZero])
RigidBody == (Evaluated /\ req.size = 0 /\ def.model \in {"plate", "plate_w"} /\ AllFree(def)
              /\ def.m >= 3 /\ def.n >= 3) =>
    \A dof \in Dofs(def.model) :
        /\ (req.q = "k0" /\ def.Ncte = <<RZero, RZero, RZero>>) =>
               \A i \in 1..N_ : RIsZero(MVec(OutVals, RigidVec(def, dof))[i])
        /\ req.q = "kM" =>
               Quad(OutVals, RigidVec(def, dof)) = RMul(RMul(def.mu, def.h), RMul(def.a, RSub(def.y2, def.y1)))
(* reference-surface invariance (C04): the same motion described from the mid-plane and from a surface
   at distance d has amplitudes related by  u_mid = u_ref - d w,x ,  v_mid = v_ref - d w,y ,  w unchanged.
   On the unrestrained basis (which contains the derivatives of its own w functions) this is a rational
   matrix Tr(d), and  Tr(d)^T K(offset 0) Tr(d) = K(offset d)  for the stiffness (laminate B = d A,
   D = D0 + d^2 A) and the mass matrix alike -- so frequencies cannot move with d. *)
BasisMat(n) == Fn([p \in 1..n |-> Fn([k \in 1..n |-> PCoef(D(k-1, 0), p)])])      \* column k = coefficients of f_(k-1)
DerivCoefs(i, n) == Solve(BasisMat(n), Fn([p \in 1..n |-> PCoef(D(i, 1), p)]))      \* f_i' = SUM_k alpha_k f_k
RefShift(d0, dist) ==
    LET N == Size(d0)
        ax == Fn([i \in 0..(d0.m-1) |-> DerivCoefs(i, d0.m)])
        ay == Fn([j \in 0..(d0.n-1) |-> DerivCoefs(j, d0.n)])
        entry(r, c) ==          \* amplitude r of the mid-plane description per unit amplitude c of the reference one
            IF r = c THEN ROne
            ELSE IF DofOf(d0, c) # W THEN RZero
            ELSE IF DofOf(d0, r) = U /\ JOf(d0, r) = JOf(d0, c)
                 THEN RNeg(RMul(dist, RMul(RDiv(Two, d0.a), ax[IOf(d0, c)][IOf(d0, r) + 1])))
            ELSE IF DofOf(d0, r) = V /\ IOf(d0, r) = IOf(d0, c)
                 THEN RNeg(RMul(dist, RMul(RDiv(Two, d0.b), ay[JOf(d0, c)][JOf(d0, r) + 1])))
            ELSE RZero
    IN Fn([r \in 1..N |-> Fn([c \in 1..N |-> entry(r, c)])])
ZeroOffsetDef(d) ==     \* the same homogeneous wall described from its mid-plane
    [d EXCEPT !.off = RZero,
              !.F = Fn([p \in 1..6 |-> Fn([q \in 1..6 |->
                        IF p <= 3 /\ q <= 3 THEN d.F[p][q]
                        ELSE IF p > 3 /\ q > 3 THEN RSub(d.F[p][q], RMul(RMul(d.off, d.off), d.F[p-3][q-3]))
                        ELSE RZero])])]
Homogeneous(d) == \A p \in 1..3, q \in 1..3 : d.F[p][q+3] = RMul(d.off, d.F[p][q])     \* B = d A: one material
ReferenceSurfaceInvariance ==
    (Evaluated /\ req.size = 0 /\ req.q \in {"k0", "kM"} /\ def.model = "plate" /\ AllFree(def) /\ Homogeneous(def)
     /\ def.m >= 4 /\ def.n >= 4 /\ ~RIsZero(def.off) /\ def.Ncte = <<RZero, RZero, RZero>> /\ Deviations = {}) =>
        LET d0 == ZeroOffsetDef(def)
            Tr == RefShift(d0, def.off)
            K0m == Vals(QuantityDev(d0, req, {}))
        IN OutVals = MMul(MT(Tr), MMul(K0m, Tr))

(* aerodynamics: with w restrained on the upstream/downstream edges the flow-derivative part is
   skew-symmetric, the curvature and damping parts symmetric; everything linear in its coefficient *)
FlowRestrained(d, flow) == LET f == d.fl[W][IF flow = "x" THEN 1 ELSE 2] IN RIsZero(f[1]) /\ RIsZero(f[3])
AeroStructure == (Evaluated /\ req.q = "kA" /\ req.size = 0 /\ FlowRestrained(def, req.flow)) =>
    /\ MSkew(Vals(KALit(def, req.flow, req.beta, RZero)))
    /\ MSym(Vals(KALit(def, req.flow, RZero, req.gamma)))
    /\ Vals(KALit(def, req.flow, req.beta, req.gamma))
         = MAdd(MScale(req.beta, Vals(KALit(def, req.flow, ROne, RZero))),
                MScale(req.gamma, Vals(KALit(def, req.flow, RZero, ROne))))
(* ---- field consequences ------------------------------------------------------ *)
(* the load vector is the loads' virtual work: fext . e_k = SUM F . uvw(e_k)(x_f) for every unit
   amplitude vector e_k (both sides from the specification's own series) *)
UnitVec(n, k) == Fn([i \in 1..n |-> IF i = k THEN ROne ELSE RZero])
VirtualWork == (req # NoReq /\ req.q = "fext" /\ req.size = 0) =>
    \A k \in 1..Size(def) :
        LET e == UnitVec(Size(def), k)
            work(fs, mult) == RSum(Fn([n \in 1..Len(fs) |->
                LET uvw == Uvw(def, e, fs[n][1], fs[n][2])
                IN RMul(mult, RAdd(RMul(fs[n][3], uvw[1][1]), RAdd(RMul(fs[n][4], uvw[2][1]), RMul(fs[n][5], uvw[3][1]))))]))
        IN out[k][1] = RAdd(work(req.forces, ROne), work(req.forcesInc, req.inc))
(* strain energy density consistency: eps^T F eps at a point is >= 0 for the linear strains *)
StrainEnergyNonNegative == (req # NoReq /\ req.q = "stress" /\ ~req.NL /\ Deviations = {}) =>
    \A k \in 1..Len(out) :
        LET e == LinStrain(def, req.c, req.pts[k][1], req.pts[k][2])
        IN RSign(RDot(Fn([p \in 1..6 |-> out[k][p][1]]), Fn([p \in 1..6 |-> e[p][1]]))) >= 0
(* ---- non-linear consequences (C08, C03 state-based) ---------------------------------- *)
ZeroState == Fn([k \in 1..Size(def) |-> RZero])
NLReq == req # NoReq /\ req.size = 0 /\ req.q \in {"fint", "kT"}
(* the internal force vanishes at the undeformed state and the tangent there is the linear stiffness *)
AtRest == NLReq =>
    /\ \A k \in 1..Size(def) : RIsZero(Fint(def, ZeroState)[k][1])
    /\ Vals(KT(def, ZeroState)) = Vals(K0Lin(def))
(* the tangent is symmetric (every entry from its own formula) *)
TangentSymmetric == (req # NoReq /\ req.q = "kT" /\ req.size = 0 /\ req.taper = Uniform) => MSym(Vals(KTFull(def, req.c)))
(* the tangent is the Jacobian of the internal force: Fint is a cubic map of c, for which the 4-point
   central stencil is exact:  KT(c) dir = [Fint(c-2h dir) - 8 Fint(c-h dir) + 8 Fint(c+h dir) - Fint(c+2h dir)] / 12h *)
Dirs(n) == { Fn([i \in 1..n |-> RFromInt(((i * 3 + 1) % 5) - 2)]), Fn([i \in 1..n |-> IF i = n THEN ROne ELSE RZero]) }
Along(c, dir, t) == Fn([i \in 1..Len(c) |-> RAdd(c[i], RMul(t, dir[i]))])
FintV(c) == Fn([k \in 1..Size(def) |-> Fint(def, c)[k][1]])
Stencil(f(_), h) == LET w(a, b) == RMul(RFromInt(a), b)
                    IN RDiv(RAdd(RSub(f(RMul(RFromInt(-2), h)), w(8, f(RNeg(h)))), RSub(w(8, f(h)), f(RMul(Two, h)))), RMul(RFromInt(12), h))
TangentIsJacobian == (req # NoReq /\ req.q = "kT" /\ req.size = 0 /\ req.taper = Uniform) =>
    \A dir \in Dirs(Size(def)) :
        LET h == RQ(1, 4)
            Kd == MVec(OutVals, dir)
        IN \A k \in 1..Size(def) :
              LET f(t) == FintV(Along(req.c, dir, t))[k] IN Kd[k] = Stencil(f, h)
(* with a tapered laminate the tangent is still the Jacobian of the (tapered) internal force *)
TaperedTangentIsJacobian == (req # NoReq /\ req.q = "kT" /\ req.size = 0 /\ req.taper # Uniform) =>
    LET dir == Fn([i \in 1..Size(def) |-> RFromInt(((i * 3 + 1) % 5) - 2)])
        h == RQ(1, 4)
        Kd == MVec(OutVals, dir)
    IN \A k \in 1..Size(def) :
          LET f(t) == FintT(def, Along(req.c, dir, t), req.taper)[k][1] IN Kd[k] = Stencil(f, h)
(* the internal force is the gradient of the strain energy (quartic in c: the same stencil is exact),
   hence its work around any closed path vanishes *)
ForceIsEnergyGradient == (req # NoReq /\ req.q = "fint" /\ req.size = 0 /\ req.taper = Uniform) =>
    \A dir \in Dirs(Size(def)) :
        LET f(t) == Energy(def, Along(req.c, dir, t))
        IN RDot(Fn([k \in 1..Len(out) |-> out[k][1]]), dir) = Stencil(f, RQ(1, 4))
(* state-based geometric stiffness: a state of uniform membrane strain ex0 (u = ex0 x, which the basis
   contains when all u edge functions are on: xi = (f2 - f0) + 2 (f1 + f3), 1 = g0 + g2) reproduces the
   constant-load matrix of N = F[.,1] ex0 *)
UniformState(d, ex0) == Fn([idx \in 1..Size(d) |->
    IF DofOf(d, idx) = U /\ JOf(d, idx) \in {0, 2} /\ IOf(d, idx) < 4
    THEN RMul(RMul(ex0, RDiv(d.a, Two)),
              CASE IOf(d, idx) = 0 -> RFromInt(-1) [] IOf(d, idx) = 2 -> ROne [] OTHER -> Two)
    ELSE RZero])
UniformStressReproducesConstant ==
    (req # NoReq /\ req.q = "kGc" /\ req.size = 0 /\ def.m >= 4 /\ def.n >= 3 /\ def.model = "plate"
     /\ def.fl[U][1] = UnitFlags /\ def.fl[U][2] = UnitFlags) =>
        LET ex0 == RQ(3, 16)
            Nn == <<RMul(def.F[1][1], ex0), RMul(def.F[2][1], ex0), RMul(def.F[3][1], ex0)>>
        IN Vals(KGState(def, UniformState(def, ex0), FALSE)) = Vals(KG0(def, Nn))
=============================================================================
