------------------------------- MODULE PanelOps -------------------------------
(***************************************************************************)
(* Panel matrices from first principles (properties C02 C03 C04 C19, and   *)
(* the consequences used by C13 C14 C15).                                  *)
(*                                                                         *)
(* A panel definition `d` is a record                                      *)
(*   model  "plate" | "plate_w" | "cpanel" | "kpanel"                      *)
(*   a, b   side lengths (Rat);  r radius (at x=0 for the cone);           *)
(*   sina, cosa  of the cone semi-vertex angle (Rat, Pythagorean)          *)
(*   m, n   series orders;  fl  edge flags: fl[dof][1] = <<1tx,1rx,2tx,2rx>>*)
(*          fl[dof][2] = <<1ty,1ry,2ty,2ry>>, dof = 1 (u), 2 (v), 3 (w)    *)
(*   F, Fs  6x6 laminate matrix and its tolerance scale (from LaminateOps) *)
(*   y1, y2 integration limits along y (y1 = 0, y2 = b for the whole width)*)
(*   h, mu, off   thickness, density, reference-surface offset             *)
(*                                                                         *)
(* The displacement series is  dof(x,y) = SUM c[dof,i,j] f_i(xi) g_j(eta), *)
(* xi = 2x/a - 1, eta = 2y/b - 1, f/g Bardell functions carrying the edge  *)
(* flags of that dof.  Amplitude (dof,i,j) has index num*(j*m+i)+dof-1     *)
(* (0-based; num = 3, or 1 for the w-only model).                          *)
(*                                                                         *)
(* Every matrix is the Hessian of a quadratic functional, i.e. a sum of    *)
(* separable bilinear terms  c * INT INT d^(ax,ay) A * d^(bx,by) B dx dy;  *)
(* BForm evaluates such a list of terms from the 1-D integrals of Bardell. *)
(* Nothing here copies the expanded expressions of the generated kernels.  *)
(***************************************************************************)
EXTENDS LaminateOps, Bardell

U == 1
V == 2
W == 3
T(dof, dx, dy, c) == [dof |-> dof, dx |-> dx, dy |-> dy, c |-> c]

(* ---- kinematics: the six Donnell strain measures as term lists ---------- *)
(* sr = sin(alpha)/r, cr = cos(alpha)/r of the (section of the) panel.       *)
(* cone operator as the package documents it (DESIGN.md C02): note the       *)
(* coefficient 1 of the second twist term.                                   *)
Strain(model, sr, cr) ==
    LET one == ROne  m1 == RNeg(ROne)  m2 == RFromInt(-2)
    IN CASE model = "plate" ->
             << <<T(U,1,0,one)>>, <<T(V,0,1,one)>>, <<T(U,0,1,one), T(V,1,0,one)>>,
                <<T(W,2,0,m1)>>, <<T(W,0,2,m1)>>, <<T(W,1,1,m2)>> >>
         [] model = "plate_w" ->
             << <<>>, <<>>, <<>>, <<T(W,2,0,m1)>>, <<T(W,0,2,m1)>>, <<T(W,1,1,m2)>> >>
         [] model = "cpanel" ->
             << <<T(U,1,0,one)>>, <<T(V,0,1,one), T(W,0,0,cr)>>, <<T(U,0,1,one), T(V,1,0,one)>>,
                <<T(W,2,0,m1)>>, <<T(W,0,2,m1)>>, <<T(W,1,1,m2)>> >>
         [] model = "kpanel" ->
             << <<T(U,1,0,one)>>,
                <<T(V,0,1,one), T(U,0,0,sr), T(W,0,0,cr)>>,
                <<T(U,0,1,one), T(V,1,0,one), T(V,0,0,RNeg(sr))>>,
                <<T(W,2,0,m1)>>,
                <<T(W,0,2,m1), T(W,1,0,RNeg(sr))>>,
                <<T(W,1,1,m2), T(W,0,1,sr)>> >>

(* bilinear term: c * INT INT (d^(a.dx,a.dy) a.dof) (d^(b.dx,b.dy) b.dof), with scale cs >= |c| *)
BT(a, b, c, cs) == [a |-> a, b |-> b, c |-> c, cs |-> cs]

(* all p,q,ta,tb combinations as one sequence *)
RECURSIVE FlattenSeq(_)
FlattenSeq(ss) == IF ss = <<>> THEN <<>> ELSE Head(ss) \o FlattenSeq(Tail(ss))
EnergyTerms(strain, F, Fs) ==
    FlattenSeq([pq \in 1..36 |->
        LET p == ((pq-1) \div 6) + 1
            q == ((pq-1) % 6) + 1
        IN FlattenSeq([x \in 1..Len(strain[p]) |->
               [y \in 1..Len(strain[q]) |->
                   LET ta == strain[p][x]  tb == strain[q][y]
                   IN BT(ta, tb, RMul(F[p][q], RMul(ta.c, tb.c)),
                         RMul(Fs[p][q], RAbs(RMul(ta.c, tb.c))))]])])

(* ---- geometry of an integration patch ------------------------------------ *)
(* x1,x2 / e1,e2: limits in xi / eta; lx, ly: physical side lengths the xi/eta
   coordinates refer to (derivative scales 2/lx, 2/ly, area element lx*ly/4) *)
Patch(x1, x2, e1, e2, lx, ly) == [x1 |-> x1, x2 |-> x2, e1 |-> e1, e2 |-> e2, lx |-> lx, ly |-> ly]
WholeX(p) == p.x1 = MinusOne /\ p.x2 = ROne
WholeY(p) == p.e1 = MinusOne /\ p.e2 = ROne

(* 1-D integral of f_i^(da) g_k^(db) with the flags of the two dofs, and its scale.
   On the whole interval the code reads a literal table (scale = |value|); on a
   sub-interval it evaluates polynomials in the limits (scale = term magnitudes). *)
I1(i, da, fa, k, db, fb, lo, hi) ==
    LET fl == RMul(Flag(i, fa), Flag(k, fb))
    IN IF lo = MinusOne /\ hi = ROne
       THEN LET v == RMul(fl, IF_(i, da, k, db)) IN <<v, RAbs(v)>>
       ELSE <<RMul(fl, IntSub(i, da, k, db, lo, hi)), RMul(RAbs(fl), IntSubScale(i, da, k, db, lo, hi))>>

(* ---- evaluation of a list of bilinear terms on one patch ------------------ *)
(* returns [rows x cols] of <<value, scale>>; idx(dof,i,j) is the amplitude index (1-based) *)
Num(model) == IF model = "plate_w" THEN 1 ELSE 3
Dofs(model) == IF model = "plate_w" THEN {W} ELSE {U, V, W}
Size(d) == Num(d.model) * d.m * d.n
Idx(d, dof, i, j) == Num(d.model) * (j * d.m + i) + (IF d.model = "plate_w" THEN 0 ELSE dof - 1) + 1
DofOf(d, r) == IF d.model = "plate_w" THEN W ELSE ((r-1) % 3) + 1
IOf(d, r) == ((r-1) \div Num(d.model)) % d.m
JOf(d, r) == ((r-1) \div Num(d.model)) \div d.m

PairZero == <<RZero, RZero>>

BForm(terms, d, p) ==
    LET nt == Len(terms)
        sx == RDiv(Two, p.lx)
        sy == RDiv(Two, p.ly)
        jac == RDiv(RMul(p.lx, p.ly), RFromInt(4))
        gco == Fn([t \in 1..nt |-> RMul(jac, RMul(RPow(sx, terms[t].a.dx + terms[t].b.dx),
                                                   RPow(sy, terms[t].a.dy + terms[t].b.dy)))])
        gv == Fn([t \in 1..nt |-> RMul(terms[t].c, gco[t])])
        gs == Fn([t \in 1..nt |-> RMul(terms[t].cs, gco[t])])
        IX == Fn([t \in 1..nt |-> Fn([i \in 0..(d.m-1) |-> Fn([k \in 0..(d.m-1) |->
                 I1(i, terms[t].a.dx, d.fl[terms[t].a.dof][1], k, terms[t].b.dx, d.fl[terms[t].b.dof][1], p.x1, p.x2)])])])
        IY == Fn([t \in 1..nt |-> Fn([j \in 0..(d.n-1) |-> Fn([l \in 0..(d.n-1) |->
                 I1(j, terms[t].a.dy, d.fl[terms[t].a.dof][2], l, terms[t].b.dy, d.fl[terms[t].b.dof][2], p.e1, p.e2)])])])
        sel == Fn([da \in 1..3 |-> Fn([db \in 1..3 |->
                 SelectSeq(Fn([t \in 1..nt |-> t]), LAMBDA t : terms[t].a.dof = da /\ terms[t].b.dof = db)])])
        N == Size(d)
        entry(r, c) ==
            LET ts == sel[DofOf(d, r)][DofOf(d, c)]
                i == IOf(d, r)  j == JOf(d, r)  k == IOf(d, c)  l == JOf(d, c)
            IN IF ts = <<>> THEN PairZero
               ELSE <<RDot(Fn([x \in 1..Len(ts) |-> gv[ts[x]]]),
                           Fn([x \in 1..Len(ts) |-> RMul(IX[ts[x]][i][k][1], IY[ts[x]][j][l][1])])),
                      RDot(Fn([x \in 1..Len(ts) |-> gs[ts[x]]]),
                           Fn([x \in 1..Len(ts) |-> RMul(IX[ts[x]][i][k][2], IY[ts[x]][j][l][2])]))>>
    IN Fn([r \in 1..N |-> Fn([c \in 1..N |-> entry(r, c)])])

(* entrywise sum of <<value, scale>> matrices *)
PAddM(A, B) == Fn([r \in 1..Len(A) |-> Fn([c \in 1..Len(A[r]) |->
                  <<RAdd(A[r][c][1], B[r][c][1]), RAdd(A[r][c][2], B[r][c][2])>>])])
RECURSIVE PSumFrom(_,_,_,_)
PSumFrom(f(_), k, n, acc) == IF k > n THEN acc ELSE PSumFrom(f, k+1, n, PAddM(acc, f(k)))
PZero(N) == Fn([r \in 1..N |-> Fn([c \in 1..N |-> PairZero])])
Vals(M) == Fn([r \in 1..Len(M) |-> Fn([c \in 1..Len(M[r]) |-> M[r][c][1]])])

(* ---- patches of a definition --------------------------------------------- *)
Eta(d, y) == RSub(RDiv(RMul(Two, y), d.b), ROne)
NSec == 41         \* the conical kernel's piecewise-constant-radius sections along the meridian
(* plate / cpanel: one patch; kpanel: NSec patches with r_s = r - sina*x_mid, b_s = r_s*b/r *)
SecR(d, s) == RSub(d.r, RMul(d.sina, RMul(d.a, RFrac(2*s - 1, 2*NSec))))
SecPatch(d, s) ==
    Patch(RSub(RFrac(2*(s-1), NSec), ROne), RSub(RFrac(2*s, NSec), ROne), Eta(d, d.y1), Eta(d, d.y2),
          d.a, RDiv(RMul(SecR(d, s), d.b), d.r))
OnePatch(d) == Patch(MinusOne, ROne, Eta(d, d.y1), Eta(d, d.y2), d.a, d.b)

(* sum of a patch-wise bilinear form over the patches of the definition *)
OverPatches(termsOf(_,_), d) ==
    IF d.model = "kpanel"
    THEN LET f(s) == BForm(termsOf(RDiv(d.sina, SecR(d, s)), RDiv(d.cosa, SecR(d, s))), d, SecPatch(d, s))
         IN PSumFrom(f, 1, NSec, PZero(Size(d)))
    ELSE BForm(termsOf(RZero, IF d.model = "cpanel" THEN RInv(d.r) ELSE RZero), d, OnePatch(d))

(* ---- the matrices ----------------------------------------------------------- *)
(* k0: Hessian of 1/2 INT eps^T F eps *)
K0Lin(d) == LET t(sr, cr) == EnergyTerms(Strain(d.model, sr, cr), d.F, d.Fs) IN OverPatches(t, d)

(* kG0: Hessian of 1/2 INT (Nxx w,x^2 + 2 Nxy w,x w,y + Nyy w,y^2) *)
GeoTerms(N) ==
    << BT(T(W,1,0,ROne), T(W,1,0,ROne), N[1], RAbs(N[1])),
       BT(T(W,0,1,ROne), T(W,0,1,ROne), N[2], RAbs(N[2])),
       BT(T(W,1,0,ROne), T(W,0,1,ROne), N[3], RAbs(N[3])),
       BT(T(W,0,1,ROne), T(W,1,0,ROne), N[3], RAbs(N[3])) >>
KG0(d, N) == LET t(sr, cr) == GeoTerms(N) IN OverPatches(t, d)      \* N = <<Nxx, Nyy, Nxy>>

(* k0 as returned by the package: constant membrane pre-load adds its initial-stress matrix *)
K0(d) == IF d.Ncte = <<RZero, RZero, RZero>> THEN K0Lin(d) ELSE PAddM(K0Lin(d), KG0(d, d.Ncte))

(* kM: Hessian of the kinetic energy  1/2 mu INT_z INT [(u - z w,x)^2 + (v - z w,y)^2 + w^2],
   z in [off - h/2, off + h/2]  =>  mu h, coupling  -mu h off, rotary mu h (off^2 + h^2/12).
   dev: set of named deviations (known findings) under which the code's behaviour is described *)
MassTerms(d, dev) ==
    LET mh == RMul(d.mu, d.h)
        cpl == IF "KF_C04_OffsetCouplingSign" \in dev THEN RMul(mh, d.off) ELSE RNeg(RMul(mh, d.off))
        rot == RMul(mh, RAdd(RMul(d.off, d.off), RDiv(RMul(d.h, d.h), RFromInt(12))))
        uvw == << BT(T(W,0,0,ROne), T(W,0,0,ROne), mh, mh),
                  BT(T(W,1,0,ROne), T(W,1,0,ROne), rot, rot),
                  BT(T(W,0,1,ROne), T(W,0,1,ROne), rot, rot) >>
        inplane == << BT(T(U,0,0,ROne), T(U,0,0,ROne), mh, mh),
                      BT(T(V,0,0,ROne), T(V,0,0,ROne), mh, mh),
                      BT(T(U,0,0,ROne), T(W,1,0,ROne), cpl, RAbs(cpl)),
                      BT(T(W,1,0,ROne), T(U,0,0,ROne), cpl, RAbs(cpl)),
                      BT(T(V,0,0,ROne), T(W,0,1,ROne), cpl, RAbs(cpl)),
                      BT(T(W,0,1,ROne), T(V,0,0,ROne), cpl, RAbs(cpl)) >>
    IN IF d.model = "plate_w" THEN uvw ELSE uvw \o inplane
KM(d, dev) == LET t(sr, cr) == MassTerms(d, dev) IN OverPatches(t, d)

(* kA: stiffness-side form of the piston-theory pressure p = -beta dw/dflow + gamma w:
   beta INT w_A dw_B/dflow - gamma INT w_A w_B   (gamma only for curved panels)
   cA (without the imaginary unit): -aeromu INT w_A w_B *)
AeroTerms(flow, beta, gamma) ==
    << BT(T(W,0,0,ROne), IF flow = "x" THEN T(W,1,0,ROne) ELSE T(W,0,1,ROne), beta, RAbs(beta)),
       BT(T(W,0,0,ROne), T(W,0,0,ROne), RNeg(gamma), RAbs(gamma)) >>
KALit(d, flow, beta, gamma) == LET t(sr, cr) == AeroTerms(flow, beta, gamma) IN OverPatches(t, d)
(* what the code does with the curvature part (known finding C19): the sum of both parts is
   mirrored skew-symmetrically below the diagonal, so the gamma part comes out skew there *)
KA(d, flow, beta, gamma, dev) ==
    IF "KF_C19_GammaPartSkewed" \in dev /\ ~RIsZero(gamma)
    THEN LET B == KALit(d, flow, beta, RZero)
             G == KALit(d, flow, RZero, gamma)
         IN Fn([r \in 1..Len(B) |-> Fn([c \in 1..Len(B) |->
               <<IF r <= c THEN RAdd(B[r][c][1], G[r][c][1]) ELSE RSub(B[r][c][1], G[r][c][1]),
                 RAdd(B[r][c][2], G[r][c][2])>>])])
    ELSE KALit(d, flow, beta, gamma)
(* coefficients from Mach number M (> 1), air density, speed, sound speed: linear piston theory.
   root must be the rational square root of M^2 - 1 (requests use Mach numbers with rational roots) *)
AeroCoeffs(M, root, rho, vel, ainf, r) ==
    LET beta == RDiv(RMul(rho, RMul(vel, vel)), root)
    IN [beta |-> beta,
        gamma |-> IF RIsZero(r) THEN RZero ELSE RDiv(beta, RMul(RMul(Two, r), root)),
        aeromu |-> RMul(RDiv(beta, RMul(M, ainf)), RDiv(RSub(RMul(M, M), Two), RSub(RMul(M, M), ROne)))]
CA(d, aeromu) == LET t(sr, cr) == << BT(T(W,0,0,ROne), T(W,0,0,ROne), RNeg(aeromu), RAbs(aeromu)) >>
                 IN OverPatches(t, d)

(* a panel description pd (stack instead of F) completed with the laminate matrix, its scale and thickness *)
(* force_orthotropic_laminate: the package zeroes the 16/26 couplings of A, B, D (entries with exactly one index in {3, 6}) *)
ForceOrtho(F) == Fn([p \in 1..6 |-> Fn([q \in 1..6 |-> IF (p \in {3, 6}) # (q \in {3, 6}) THEN RZero ELSE F[p][q]])])
IsOrtho(pd) == IF "ortho" \in DOMAIN pd THEN pd.ortho ELSE FALSE
CompleteDef(pd) ==
    LET lam == ABDE(pd.stack, pd.off)
        sc  == ABDEScale(pd.stack, pd.off)
        F0 == ABD6(lam)
        Fs0 == ABD6(sc)
    IN [model |-> pd.model, a |-> pd.a, b |-> pd.b, r |-> pd.r, sina |-> pd.sina, cosa |-> pd.cosa,
        m |-> pd.m, n |-> pd.n, fl |-> pd.fl, y1 |-> pd.y1, y2 |-> pd.y2, mu |-> pd.mu,
        off |-> pd.off, Ncte |-> pd.Ncte,
        F |-> IF IsOrtho(pd) THEN ForceOrtho(F0) ELSE F0, Fs |-> IF IsOrtho(pd) THEN ForceOrtho(Fs0) ELSE Fs0,
        h |-> Thickness(pd.stack)]
(* placement inside a larger matrix: size x size with the block at (row0, col0), zeros elsewhere *)
Place(M, size, row0, col0) ==
    Fn([r \in 1..size |-> Fn([c \in 1..size |->
        IF r > row0 /\ r <= row0 + Len(M) /\ c > col0 /\ c <= col0 + Len(M)
        THEN M[r - row0][c - col0] ELSE PairZero])])
=============================================================================
