----------------------------- MODULE ConnectionOps -----------------------------
(***************************************************************************)
(* Penalty connections between two panel domains (property C12): the       *)
(* connection matrix is the Hessian of                                     *)
(*    kt/2 INT |jump of interface displacement|^2                          *)
(*  + kr/2 INT (jump of interface rotation)^2                              *)
(* over the interface (a line y = const / x = const on each panel, or the  *)
(* common surface for the face-to-face kind).  A kind is described by its  *)
(* jump functionals: each jump is a list of terms                          *)
(*    [p (panel 1|2), dof, dx, dy, c]   meaning  c * d^(dx,dy) dof_p       *)
(* and carries the penalty constant that weighs it.  ConnMatrix evaluates  *)
(* the Hessian from the 1-D integrals / point values of Bardell.tla.       *)
(***************************************************************************)
EXTENDS PanelFieldOps

JT(p, dof, dx, dy, c) == [p |-> p, dof |-> dof, dx |-> dx, dy |-> dy, c |-> c]
mOne == RNeg(ROne)

(* jumps of each kind: sequence of [k |-> "kt"|"kr", terms |-> <<...>>] *)
Jumps(kind, dsb) ==
    CASE kind = "SSycte" ->
           << [k |-> "kt", terms |-> <<JT(1,U,0,0,ROne), JT(2,U,0,0,mOne)>>],
              [k |-> "kt", terms |-> <<JT(1,V,0,0,ROne), JT(2,V,0,0,mOne)>>],
              [k |-> "kt", terms |-> <<JT(1,W,0,0,ROne), JT(2,W,0,0,mOne)>>],
              [k |-> "kr", terms |-> <<JT(1,W,0,1,ROne), JT(2,W,0,1,mOne)>>] >>
      [] kind = "SSxcte" ->
           << [k |-> "kt", terms |-> <<JT(1,U,0,0,ROne), JT(2,U,0,0,mOne)>>],
              [k |-> "kt", terms |-> <<JT(1,V,0,0,ROne), JT(2,V,0,0,mOne)>>],
              [k |-> "kt", terms |-> <<JT(1,W,0,0,ROne), JT(2,W,0,0,mOne)>>],
              [k |-> "kr", terms |-> <<JT(1,W,1,0,ROne), JT(2,W,1,0,mOne)>>] >>
      (* base (1) to perpendicular flange (2): flange (u, v, w) seen in the base frame is (u, w, -v) *)
      [] kind = "BFycte" ->
           << [k |-> "kt", terms |-> <<JT(1,U,0,0,ROne), JT(2,U,0,0,mOne)>>],
              [k |-> "kt", terms |-> <<JT(1,V,0,0,ROne), JT(2,W,0,0,mOne)>>],
              [k |-> "kt", terms |-> <<JT(1,W,0,0,ROne), JT(2,V,0,0,ROne)>>],
              [k |-> "kr", terms |-> <<JT(1,W,0,1,ROne), JT(2,W,0,1,mOne)>>] >>
      [] kind = "BFxcte" ->
           << [k |-> "kt", terms |-> <<JT(1,U,0,0,ROne), JT(2,W,0,0,mOne)>>],
              [k |-> "kt", terms |-> <<JT(1,V,0,0,ROne), JT(2,V,0,0,mOne)>>],
              [k |-> "kt", terms |-> <<JT(1,W,0,0,ROne), JT(2,U,0,0,ROne)>>],
              [k |-> "kr", terms |-> <<JT(1,W,1,0,ROne), JT(2,W,1,0,mOne)>>] >>
      (* face to face over the common surface, thickness offset dsb between the mid-surfaces:
         the skin's material line is carried through the whole distance (translation penalty only) *)
      [] kind = "SB" ->
           << [k |-> "kt", terms |-> <<JT(1,U,0,0,ROne), JT(1,W,1,0,dsb), JT(2,U,0,0,mOne)>>],
              [k |-> "kt", terms |-> <<JT(1,V,0,0,ROne), JT(1,W,0,1,dsb), JT(2,V,0,0,mOne)>>],
              [k |-> "kt", terms |-> <<JT(1,W,0,0,ROne), JT(2,W,0,0,mOne)>>] >>

(* how each axis enters: "int" = integrated over [-1,1], "pt" = evaluated on the interface line *)
XMode(kind) == IF kind \in {"SSxcte", "BFxcte"} THEN "pt" ELSE "int"
YMode(kind) == IF kind \in {"SSycte", "BFycte"} THEN "pt" ELSE "int"

(* factor along one axis for basis indices i (panel P, dof a, derivative da) and k (panel Q, dof b, db):
   value and scale.  la, lb: the side lengths the coordinate refers to; pa, pb: interface positions (xi or eta). *)
AxisFactor(mode, i, da, fa, la, pa, k, db, fb, lb, pb) ==
    LET sc == RMul(RPow(RDiv(Two, la), da), RPow(RDiv(Two, lb), db))
    IN IF mode = "int"
       THEN PScale2(sc, I1(i, da, fa, k, db, fb, MinusOne, ROne))
       ELSE PScale2(sc, << RMul(FVal(i, da, pa, fa), FVal(k, db, pb, fb)),
                           RMul(FScale(i, da, pa, fa), FScale(k, db, pb, fb)) >>)

(* cn: [kind, d1, d2 (completed panel definitions), pos1, pos2 (interface coordinate on each panel: y or x),
        kt, kr, dsb] *)
PanelOf(cn, p) == IF p = 1 THEN cn.d1 ELSE cn.d2
PosOf(cn, p) == IF p = 1 THEN cn.pos1 ELSE cn.pos2
(* measure of the interface: line element a1/2 (ycte), b1/2 (xcte), area element a1 b1/4 (surface) *)
Measure(cn) == CASE XMode(cn.kind) = "int" /\ YMode(cn.kind) = "pt" -> RDiv(cn.d1.a, Two)
                 [] XMode(cn.kind) = "pt" /\ YMode(cn.kind) = "int" -> RDiv(cn.d1.b, Two)
                 [] OTHER -> RDiv(RMul(cn.d1.a, cn.d1.b), RFromInt(4))
Kof(cn, k) == IF k = "kt" THEN cn.kt ELSE cn.kr

(* Hessian entry between amplitude ra of panel P and rb of panel Q *)
ConnEntry(cn, P, ra, Q, rb) ==
    LET dP == PanelOf(cn, P)   dQ == PanelOf(cn, Q)
        dofa == DofOf(dP, ra)  ia == IOf(dP, ra)  ja == JOf(dP, ra)
        dofb == DofOf(dQ, rb)  ib == IOf(dQ, rb)  jb == JOf(dQ, rb)
        js == Jumps(cn.kind, cn.dsb)
        xiP == Xi(dP, PosOf(cn, P))    xiQ == Xi(dQ, PosOf(cn, Q))
        etP == Eta(dP, PosOf(cn, P))   etQ == Eta(dQ, PosOf(cn, Q))
        pairOf(q, x, y) ==
            LET ta == js[q].terms[x]   tb == js[q].terms[y]
            IN IF ta.p = P /\ ta.dof = dofa /\ tb.p = Q /\ tb.dof = dofb
               THEN PScale2(RMul(Kof(cn, js[q].k), RMul(Measure(cn), RMul(ta.c, tb.c))),
                            PMul2(AxisFactor(XMode(cn.kind), ia, ta.dx, dP.fl[dofa][1], dP.a, xiP,
                                             ib, tb.dx, dQ.fl[dofb][1], dQ.a, xiQ),
                                  AxisFactor(YMode(cn.kind), ja, ta.dy, dP.fl[dofa][2], dP.b, etP,
                                             jb, tb.dy, dQ.fl[dofb][2], dQ.b, etQ)))
               ELSE PairZero
        all == FlattenSeq([q \in 1..Len(js) |-> FlattenSeq([x \in 1..Len(js[q].terms) |->
                   [y \in 1..Len(js[q].terms) |-> pairOf(q, x, y)]])])
    IN << RSum(Fn([k \in 1..Len(all) |-> all[k][1]])), RSum(Fn([k \in 1..Len(all) |-> all[k][2]])) >>

(* global matrix of size `size` with panel 1 amplitudes at off1+1.., panel 2 at off2+1..
   dev: named deviations (known findings) *)
ConnMatrix(cn, size, off1, off2, dev) ==
    LET n1 == Size(cn.d1)  n2 == Size(cn.d2)
        which(r) == IF r > off1 /\ r <= off1 + n1 THEN 1 ELSE IF r > off2 /\ r <= off2 + n2 THEN 2 ELSE 0
        loc(r) == IF which(r) = 1 THEN r - off1 ELSE r - off2
        dropped(P, Q) == "KF_C12_CouplingDroppedWhenP1AfterP2" \in dev /\ off1 > off2 /\ P # Q
    IN Fn([r \in 1..size |-> Fn([c \in 1..size |->
          IF which(r) = 0 \/ which(c) = 0 \/ dropped(which(r), which(c)) THEN PairZero
          ELSE ConnEntry(cn, which(r), loc(r), which(c), loc(c))])])

(* penalty constants from the two laminates: series combination over (h1+h2) *)
Four == RFromInt(4)
SeriesK(x1, x2, h1, h2) == RDiv(RMul(Four, RMul(x1, x2)), RMul(RAdd(x1, x2), RAdd(h1, h2)))
KtKr(d1, d2, ctype) ==
    CASE ctype = "xcte" -> << SeriesK(d1.F[1][1], d2.F[1][1], d1.h, d2.h), SeriesK(d1.F[4][4], d2.F[4][4], d1.h, d2.h) >>
      [] ctype = "ycte" -> << SeriesK(d1.F[2][2], d2.F[2][2], d1.h, d2.h), SeriesK(d1.F[5][5], d2.F[5][5], d1.h, d2.h) >>
      [] ctype = "bot-top" -> << RDiv(SeriesK(d1.F[1][1], d2.F[1][1], d1.h, d2.h), RMin(d1.a, d1.b)), RZero >>
CType(kind) == IF kind \in {"SSxcte", "BFxcte"} THEN "xcte" ELSE IF kind = "SB" THEN "bot-top" ELSE "ycte"
=============================================================================
