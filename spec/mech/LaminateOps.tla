----------------------------- MODULE LaminateOps -----------------------------
(***************************************************************************)
(* Property C01.  A laminate is a sequence of plies [dir, t, mat] and a    *)
(* reference-surface offset d.  dir = <<p, q>> (integers) is the fibre     *)
(* direction: theta = atan2(p, q), so cos^2, sin^2 and sin*cos are the     *)
(* rationals q^2/n, p^2/n, pq/n with n = p^2+q^2 -- only these even-degree *)
(* combinations occur in tensor rotation, which is why exact arithmetic is *)
(* possible.  mat is the user's 3-, 6- or 9-entry material tuple.          *)
(*                                                                         *)
(* ABDE is the definition the property states: through-thickness integrals *)
(* (weights 1, z, z^2) of each ply's plane-stress stiffness rotated to the *)
(* laminate axes, z measured from the reference surface:                   *)
(* z_0 = -t/2 + d.  The rotation is written as the matrix product          *)
(* Te^T Q Te (strain transformation), not as expanded trigonometric        *)
(* polynomials; Q is the inverse of the ply compliance.                    *)
(***************************************************************************)
EXTENDS RatLinAlg

R(n, d) == RFrac(n, d)
M3(a11,a12,a13,a21,a22,a23,a31,a32,a33) == << <<a11,a12,a13>>, <<a21,a22,a23>>, <<a31,a32,a33>> >>

(* ---- material: completion of the 3/6/9-entry tuple --------------------- *)
(* (e1, e2, nu12, g12, g13, g23, e3, nu13, nu23); 3 entries: isotropic (E, ., nu) *)
Complete(mat) ==
    IF Len(mat) = 3
    THEN LET e == mat[1]  nu == mat[3]
             g == RDiv(e, RMul(RFromInt(2), RAdd(ROne, nu)))
         IN <<e, e, nu, g, g, g, e, nu, nu>>
    ELSE IF Len(mat) = 6 THEN mat \o <<mat[2], mat[3], mat[3]>>
    ELSE mat

(* plane-stress stiffness = inverse of the in-plane compliance
   [[1/e1, -nu12/e1, 0], [-nu12/e1, 1/e2, 0], [0, 0, 1/g12]] *)
PlaneStressQ(mat) ==
    LET m == Complete(mat)
        s11 == RInv(m[1])   s22 == RInv(m[2])   s12 == RNeg(RDiv(m[3], m[1]))
        det == RSub(RMul(s11, s22), RMul(s12, s12))
    IN M3(RDiv(s22, det), RNeg(RDiv(s12, det)), RZero,
          RNeg(RDiv(s12, det)), RDiv(s11, det), RZero,
          RZero, RZero, m[4])
(* transverse shear stiffness in material axes, order (23, 13) *)
ShearQ(mat) == LET m == Complete(mat) IN << <<m[6], RZero>>, <<RZero, m[5]>> >>
Admissible(mat) ==
    LET m == Complete(mat)
    IN /\ RSign(m[1]) > 0 /\ RSign(m[2]) > 0 /\ RSign(m[4]) > 0 /\ RSign(m[5]) > 0 /\ RSign(m[6]) > 0
       /\ RSign(RSub(ROne, RMul(m[3], RDiv(RMul(m[3], m[2]), m[1])))) > 0     \* 1 - nu12*nu21 > 0

(* ---- rotation ----------------------------------------------------------- *)
C2(dir) == R(dir[2]*dir[2], dir[1]*dir[1] + dir[2]*dir[2])
S2(dir) == R(dir[1]*dir[1], dir[1]*dir[1] + dir[2]*dir[2])
CS(dir) == R(dir[1]*dir[2], dir[1]*dir[1] + dir[2]*dir[2])
Two == RFromInt(2)
(* engineering-strain transformation laminate -> material axes *)
Te(dir) == LET c2 == C2(dir)  s2 == S2(dir)  cs == CS(dir)
           IN M3(c2, s2, cs,
                 s2, c2, RNeg(cs),
                 RNeg(RMul(Two, cs)), RMul(Two, cs), RSub(c2, s2))
QBar(ply) == MMul(MT(Te(ply.dir)), MMul(PlaneStressQ(ply.mat), Te(ply.dir)))
(* magnitude used by the tolerance rule: the angle reaches the code as a rounded
   double, and rotation couples every entry of Q into every entry of QBar
   (|Te| <= 1 entrywise), so each entry is judged against the sum of |Q| *)
RECURSIVE SumAbsRows(_,_)
SumAbsRows(M, i) == IF i > Rows(M) THEN RZero ELSE RAdd(RAbsSum(M[i]), SumAbsRows(M, i+1))
QBarAbs(ply) == LET q == SumAbsRows(PlaneStressQ(ply.mat), 1)
                IN Fn([i \in 1..3 |-> Fn([j \in 1..3 |-> q])])
(* transverse shear: (g23,g13)_mat = [[c,-s],[s,c]] (gyz,gxz)_lam ; Rs^T Qs Rs has degree-2 entries only *)
QsBar(ply) == LET c2 == C2(ply.dir)  s2 == S2(ply.dir)  cs == CS(ply.dir)
                  q == ShearQ(ply.mat)  q44 == q[1][1]  q55 == q[2][2]
              IN << <<RAdd(RMul(q44, c2), RMul(q55, s2)), RMul(RSub(q55, q44), cs)>>,
                    <<RMul(RSub(q55, q44), cs), RAdd(RMul(q55, c2), RMul(q44, s2))>> >>
QsBarAbs(ply) == LET q == SumAbsRows(ShearQ(ply.mat), 1)
                 IN Fn([i \in 1..2 |-> Fn([j \in 1..2 |-> q])])

(* ---- through-thickness integration -------------------------------------- *)
RECURSIVE ThickFrom(_,_)
ThickFrom(stack, k) == IF k > Len(stack) THEN RZero ELSE RAdd(stack[k].t, ThickFrom(stack, k+1))
Thickness(stack) == ThickFrom(stack, 1)
(* interface coordinates z_0 .. z_N *)
RECURSIVE ZFrom(_,_,_)
ZFrom(stack, k, z) == IF k > Len(stack) THEN <<z>> ELSE <<z>> \o ZFrom(stack, k+1, RAdd(z, stack[k].t))
Zs(stack, d) == ZFrom(stack, 1, RAdd(RNeg(RDiv(Thickness(stack), Two)), d))

RECURSIVE MSumFrom(_,_,_,_)
MSumFrom(f(_), k, n, acc) == IF k > n THEN acc ELSE MSumFrom(f, k+1, n, MAdd(acc, f(k)))

(* weight of ply k for power p: (z_k^p - z_(k-1)^p)/p , and its magnitude *)
Wz(z, k, p) == RDiv(RSub(RPow(z[k+1], p), RPow(z[k], p)), RFromInt(p))
WAbs(z, k, p) == RDiv(RAdd(RPow(RAbs(z[k+1]), p), RPow(RAbs(z[k]), p)), RFromInt(p))

ABDE(stack, d) ==
    LET z == Zs(stack, d)
        n == Len(stack)
        a(k) == MScale(Wz(z, k, 1), QBar(stack[k]))
        b(k) == MScale(Wz(z, k, 2), QBar(stack[k]))
        dd(k) == MScale(Wz(z, k, 3), QBar(stack[k]))
        e(k) == MScale(Wz(z, k, 1), QsBar(stack[k]))
    IN [A |-> MSumFrom(a, 1, n, MZero(3,3)), B |-> MSumFrom(b, 1, n, MZero(3,3)),
        D |-> MSumFrom(dd, 1, n, MZero(3,3)), E |-> MSumFrom(e, 1, n, MZero(2,2))]
(* magnitudes of the terms: the scale of the tolerance rule *)
ABDEScale(stack, d) ==
    LET z == Zs(stack, d)
        n == Len(stack)
        a(k) == MScale(WAbs(z, k, 1), QBarAbs(stack[k]))
        b(k) == MScale(WAbs(z, k, 2), QBarAbs(stack[k]))
        dd(k) == MScale(WAbs(z, k, 3), QBarAbs(stack[k]))
        e(k) == MScale(WAbs(z, k, 1), QsBarAbs(stack[k]))
    IN [A |-> MSumFrom(a, 1, n, MZero(3,3)), B |-> MSumFrom(b, 1, n, MZero(3,3)),
        D |-> MSumFrom(dd, 1, n, MZero(3,3)), E |-> MSumFrom(e, 1, n, MZero(2,2))]
ABD6(m) == MBlock(m.A, m.B, m.B, m.D)
=============================================================================
