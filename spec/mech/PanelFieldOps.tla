----------------------------- MODULE PanelFieldOps -----------------------------
(***************************************************************************)
(* Fields recovered from an amplitude vector (property C11) and the load    *)
(* vector of point forces (property C07), from the same series PanelOps     *)
(* integrates: dof(x,y) = SUM c[dof,i,j] f_i(xi) g_j(eta).                   *)
(* Values come with the scale of the tolerance rule (sum of |terms|).        *)
(***************************************************************************)
EXTENDS PanelOps

Xi(d, x) == RSub(RDiv(RMul(Two, x), d.a), ROne)
(* value and scale of  d^(dx,dy) dof  at (x, y) for amplitudes c *)
Series(d, c, dof, dx, dy, x, y) ==
    LET xi == Xi(d, x)
        eta == Eta(d, y)
        g == RMul(RPow(RDiv(Two, d.a), dx), RPow(RDiv(Two, d.b), dy))
        fx == Fn([i \in 0..(d.m-1) |-> <<FVal(i, dx, xi, d.fl[dof][1]), FScale(i, dx, xi, d.fl[dof][1])>>])
        gy == Fn([j \in 0..(d.n-1) |-> <<FVal(j, dy, eta, d.fl[dof][2]), FScale(j, dy, eta, d.fl[dof][2])>>])
        ks == Fn([k \in 1..(d.m * d.n) |-> <<(k-1) % d.m, (k-1) \div d.m>>])       \* <<i, j>>
        cv == Fn([k \in 1..Len(ks) |-> c[Idx(d, dof, ks[k][1], ks[k][2])]])
    IN << RMul(g, RDot(cv, Fn([k \in 1..Len(ks) |-> RMul(fx[ks[k][1]][1], gy[ks[k][2]][1])]))),
          RMul(g, RDot(Fn([k \in 1..Len(ks) |-> RAbs(cv[k])]),
                       Fn([k \in 1..Len(ks) |-> RMul(fx[ks[k][1]][2], gy[ks[k][2]][2])]))) >>
(* the individual series terms (needed to state the known finding of C11) *)
SeriesTerms(d, c, dof, dx, dy, x, y) ==
    LET xi == Xi(d, x)
        eta == Eta(d, y)
        g == RMul(RPow(RDiv(Two, d.a), dx), RPow(RDiv(Two, d.b), dy))
    IN Fn([k \in 1..(d.m * d.n) |->
          LET i == (k-1) % d.m   j == (k-1) \div d.m
          IN RMul(g, RMul(c[Idx(d, dof, i, j)],
                          RMul(FVal(i, dx, xi, d.fl[dof][1]), FVal(j, dy, eta, d.fl[dof][2]))))])

PNeg2(p) == <<RNeg(p[1]), p[2]>>
PAdd2(p, q) == <<RAdd(p[1], q[1]), RAdd(p[2], q[2])>>
PScale2(c, p) == <<RMul(c, p[1]), RMul(RAbs(c), p[2])>>
PMul2(p, q) == <<RMul(p[1], q[1]), RMul(p[2], q[2])>>

(* displacements and rotations: rotations are minus the slopes of w *)
Uvw(d, c, x, y) ==
    << IF d.model = "plate_w" THEN PairZero ELSE Series(d, c, U, 0, 0, x, y),      \* the w-only model has no in-plane field
       IF d.model = "plate_w" THEN PairZero ELSE Series(d, c, V, 0, 0, x, y),
       Series(d, c, W, 0, 0, x, y),
       PNeg2(Series(d, c, W, 1, 0, x, y)), PNeg2(Series(d, c, W, 0, 1, x, y)) >>

(* linear strains: the rows of the kinematic table applied to the series *)
RECURSIVE RowSum(_,_,_,_,_,_)
RowSum(d, c, row, k, x, y) ==
    IF k > Len(row) THEN PairZero
    ELSE PAdd2(PScale2(row[k].c, Series(d, c, row[k].dof, row[k].dx, row[k].dy, x, y)),
               RowSum(d, c, row, k+1, x, y))
FieldModel(d) == IF d.model = "cpanel" THEN "cpanel" ELSE "plate"   \* flat and cylindrical field kernels
LinStrain(d, c, x, y) ==
    LET st == Strain(FieldModel(d), RZero, IF d.model = "cpanel" THEN RInv(d.r) ELSE RZero)
    IN Fn([p \in 1..6 |-> RowSum(d, c, st[p], 1, x, y)])
(* von Karman terms: 1/2 w,x^2, 1/2 w,y^2, w,x w,y -- squares OF THE SUMS.
   Deviation KF_C11_NLTermwiseSquares: the code squares each series term separately. *)
NLTerms(d, c, x, y, dev) ==
    LET wx == Series(d, c, W, 1, 0, x, y)
        wy == Series(d, c, W, 0, 1, x, y)
        half == RQ(1,2)
    IN IF "KF_C11_NLTermwiseSquares" \in dev
       THEN LET tx == SeriesTerms(d, c, W, 1, 0, x, y)
                ty == SeriesTerms(d, c, W, 0, 1, x, y)
            IN << <<RMul(half, RDot(tx, tx)), RMul(half, RMul(wx[2], wx[2]))>>,
                  <<RMul(half, RDot(ty, ty)), RMul(half, RMul(wy[2], wy[2]))>>,
                  <<RDot(tx, ty), RMul(wx[2], wy[2])>> >>
       ELSE << PScale2(half, PMul2(wx, wx)), PScale2(half, PMul2(wy, wy)), PMul2(wx, wy) >>
StrainAt(d, c, x, y, NL, dev) ==
    LET lin == LinStrain(d, c, x, y)
    IN IF NL THEN LET nl == NLTerms(d, c, x, y, dev)
                  IN << PAdd2(lin[1], nl[1]), PAdd2(lin[2], nl[2]), PAdd2(lin[3], nl[3]), lin[4], lin[5], lin[6] >>
       ELSE lin
(* stress resultants = laminate matrix times those strains (NL flag honoured).
   Deviation KF_C11_StressIgnoresNLterms: the code always uses the non-linear strains. *)
StressAt(d, c, x, y, NL, dev) ==
    LET e == StrainAt(d, c, x, y, NL \/ "KF_C11_StressIgnoresNLterms" \in dev, dev)
    IN Fn([p \in 1..6 |-> << RDot(d.F[p], Fn([q \in 1..6 |-> e[q][1]])),
                             RDot(d.Fs[p], Fn([q \in 1..6 |-> e[q][2]])) >>])

(* load vector of point forces <<x, y, fx, fy, fz>>: virtual work of each force against the
   displacement field of a unit amplitude; incrementable forces scaled by inc *)
Comp(dof, f) == f[2 + dof]
BasisAt(d, dof, i, j, x, y) ==
    << RMul(FVal(i, 0, Xi(d, x), d.fl[dof][1]), FVal(j, 0, Eta(d, y), d.fl[dof][2])),
       RMul(FScale(i, 0, Xi(d, x), d.fl[dof][1]), FScale(j, 0, Eta(d, y), d.fl[dof][2])) >>
RECURSIVE ForceSum(_,_,_,_,_)
ForceSum(d, idx, fs, k, mult) ==
    IF k > Len(fs) THEN PairZero
    ELSE PAdd2(PScale2(RMul(mult, Comp(DofOf(d, idx), fs[k])),
                       BasisAt(d, DofOf(d, idx), IOf(d, idx), JOf(d, idx), fs[k][1], fs[k][2])),
               ForceSum(d, idx, fs, k+1, mult))
Fext(d, forces, forcesInc, inc) ==
    Fn([idx \in 1..Size(d) |-> PAdd2(ForceSum(d, idx, forces, 1, ROne), ForceSum(d, idx, forcesInc, 1, inc))])
PlaceVec(v, size, col0) ==
    Fn([k \in 1..size |-> IF k > col0 /\ k <= col0 + Len(v) THEN v[k - col0] ELSE PairZero])
=============================================================================
