------------------------------- MODULE PanelEquiv -------------------------------
(***************************************************************************)
(* Property C14: equivalent descriptions of one structure give identical    *)
(* matrices.  Each law is an invariant of PanelModel relating the evaluated  *)
(* quantity of the current definition to the same quantity of a transformed *)
(* definition, both computed by the specification; TLC checks them on the   *)
(* bounded model.  They transfer to the implementation because both sides   *)
(* are bound to the code by trace validation (C02-C04, C19) and because the *)
(* harness replays each pair and lets the trace spec judge both members.     *)
(***************************************************************************)
EXTENDS PanelModel

MatQ == Evaluated /\ req.size = 0 /\ req.q \in {"k0", "kG0", "kM"}
Eval2(d) == Vals(QuantityDev(d, req, Deviations))

(* (i) a conical panel with zero semi-vertex angle is the cylindrical panel *)
ConeZeroIsCylinder == (MatQ /\ def.model = "cpanel") =>
    OutVals = Eval2([def EXCEPT !.model = "kpanel", !.sina = RZero, !.cosa = ROne])

(* (ii) K_cpanel(r) - K_plate is exactly (1/r) K1 + (1/r^2) K2 with r-independent K1, K2, hence -> plate as r -> inf:
   K1, K2 are determined from the radii r and 2r and must reproduce 3r *)
LargeRadiusLaw == (MatQ /\ def.model = "cpanel" /\ req.q = "k0") =>
    LET Kp == Eval2([def EXCEPT !.model = "plate", !.r = RZero])
        Dk(k) == MSub(Eval2([def EXCEPT !.r = RMul(RFromInt(k), def.r)]), Kp)     \* at radius k*r, x_k = x/k
        D1 == MSub(OutVals, Kp)
        (* D1 = x K1 + x^2 K2 ; D2 = (x/2) K1 + (x^2/4) K2  =>  x K1 = 4 D2 - D1 ; x^2 K2 = 2 D1 - 4 D2 *)
        xK1 == MSub(MScale(RFromInt(4), Dk(2)), D1)
        x2K2 == MSub(MScale(Two, D1), MScale(RFromInt(4), Dk(2)))
    IN Dk(3) = MAdd(MScale(RQ(1,3), xK1), MScale(RQ(1,9), x2K2))

(* (iii) the w-only plate model is the out-of-plane block of the full plate model *)
WBlock(M, d) == LET idx == Fn([k \in 1..(d.m * d.n) |-> 3 * (k - 1) + 3]) IN MSubMat(M, idx, idx)
WOnlyIsWBlock == (Evaluated /\ req.size = 0 /\ def.model = "plate_w" /\ req.q \in {"k0", "kG0", "kM", "kA", "cA"}) =>
    OutVals = WBlock(Eval2([def EXCEPT !.model = "plate"]), def)

(* (v) exchanging the roles of x and y: lengths, series orders, edge flags (x<->y and u<->v), the laminate
   (ply direction (p,q) -> (q,p), i.e. F with 1<->2 exchanged), loads Nxx<->Nyy, flow x<->y.  With the
   permutation PI: (dof,i,j) -> (swap(dof), j, i):  PI^T K(def) PI = K(swap(def)). *)
SwapDof(dof) == IF dof = U THEN V ELSE IF dof = V THEN U ELSE W
Ex6 == <<2, 1, 3, 5, 4, 6>>
SwapF(F) == Fn([p \in 1..6 |-> Fn([q \in 1..6 |-> F[Ex6[p]][Ex6[q]]])])
SwapDef(d) == [d EXCEPT !.a = d.b, !.b = d.a, !.m = d.n, !.n = d.m, !.y1 = RZero, !.y2 = d.a,
                        !.fl = Fn([dof \in 1..3 |-> <<d.fl[SwapDof(dof)][2], d.fl[SwapDof(dof)][1]>>]),
                        !.F = SwapF(d.F), !.Fs = SwapF(d.Fs), !.Ncte = <<d.Ncte[2], d.Ncte[1], d.Ncte[3]>>]
SwapReq(r) == CASE r.q = "kG0" -> [r EXCEPT !.N = <<r.N[2], r.N[1], r.N[3]>>]
                [] r.q = "kA" -> [r EXCEPT !.flow = IF r.flow = "x" THEN "y" ELSE "x"]
                [] OTHER -> r
(* index in the swapped panel of amplitude idx of the original *)
SwapIdx(d, idx) == Idx(SwapDef(d), IF d.model = "plate_w" THEN W ELSE SwapDof(DofOf(d, idx)), JOf(d, idx), IOf(d, idx))
AxisExchange == (Evaluated /\ req.size = 0 /\ def.model \in {"plate", "plate_w"} /\ def.y1 = RZero /\ def.y2 = def.b
                 /\ req.q \in {"k0", "kG0", "kM", "kA", "cA"}) =>
    LET S == Vals(QuantityDev(SwapDef(def), SwapReq(req), Deviations))
    IN \A i \in 1..N_, j \in 1..N_ : OutVals[i][j] = S[SwapIdx(def, i)][SwapIdx(def, j)]

(* (vi) similarity: all lengths (incl. thickness and offset) scaled by s, all moduli by e, density by q:
   K0 -> e s K0,  KG0(N) unchanged for the same line loads,  KM -> q s^3 KM; hence buckling line
   loads scale by e*s and frequencies by sqrt(e/q)/s (generalised eigenproblem scaling). *)
ScaleDef(d, s, e, q) ==
    [d EXCEPT !.a = RMul(s, d.a), !.b = RMul(s, d.b), !.r = RMul(s, d.r), !.y1 = RMul(s, d.y1), !.y2 = RMul(s, d.y2),
              !.h = RMul(s, d.h), !.off = RMul(s, d.off), !.mu = RMul(q, d.mu),
              !.F = Fn([p \in 1..6 |-> Fn([qq \in 1..6 |->
                        RMul(RMul(e, RPow(s, 1 + (IF p > 3 THEN 1 ELSE 0) + (IF qq > 3 THEN 1 ELSE 0))), d.F[p][qq])])]),
              !.Fs = Fn([p \in 1..6 |-> Fn([qq \in 1..6 |->
                        RMul(RMul(e, RPow(s, 1 + (IF p > 3 THEN 1 ELSE 0) + (IF qq > 3 THEN 1 ELSE 0))), d.Fs[p][qq])])])]
SimilarityLaw == (MatQ /\ def.Ncte = <<RZero, RZero, RZero>>) =>
    \A t \in { <<Two, RFromInt(3), RFromInt(5)>>, <<RQ(1,2), RQ(7,3), RQ(2,5)>> } :
        LET S == Eval2(ScaleDef(def, t[1], t[2], t[3]))
            f == CASE req.q = "k0" -> RMul(t[2], t[1])
                   [] req.q = "kG0" -> ROne
                   [] req.q = "kM" -> RMul(t[3], RPow(t[1], 3))
        IN S = MScale(f, OutVals)
=============================================================================
