------------------------------- MODULE ConnModel -------------------------------
(* Two panels joined by one penalty connection, as a state machine: Define the   *)
(* pair and the connection, then Eval the connection matrix.  The listed         *)
(* consequences of C12 are the invariants.                                       *)
EXTENDS ConnectionOps
CONSTANTS CDeviations
VARIABLES cdef, cout
cvars == <<cdef, cout>>

(* description: [kind, pd1, pd2, pos1, pos2, kt, kr (explicit constants) | auto |-> TRUE (from laminates),
                 first (1|2: which panel comes first in the global vector), pad (extra amplitudes before/between)] *)
DsbOf(pd1, pd2) == RAdd(RDiv(Thickness(pd1.stack), Two), RDiv(Thickness(pd2.stack), Two))
CompleteConn(cd) ==
    LET d1 == CompleteDef(cd.pd1)
        d2 == CompleteDef(cd.pd2)
        kk == IF cd.auto THEN KtKr(d1, d2, CType(cd.kind)) ELSE <<cd.kt, cd.kr>>
    IN [kind |-> cd.kind, d1 |-> d1, d2 |-> d2, pos1 |-> cd.pos1, pos2 |-> cd.pos2,
        kt |-> kk[1], kr |-> kk[2], dsb |-> DsbOf(cd.pd1, cd.pd2)]
Off1(cd) == IF cd.first = 1 THEN cd.pad ELSE cd.pad + Size(CompleteDef(cd.pd2))
Off2(cd) == IF cd.first = 1 THEN cd.pad + Size(CompleteDef(cd.pd1)) ELSE cd.pad
GSize(cd) == 2 * cd.pad + Size(CompleteDef(cd.pd1)) + Size(CompleteDef(cd.pd2))
ConnOf(cd, dev) == ConnMatrix(CompleteConn(cd), GSize(cd), Off1(cd), Off2(cd), dev)

NoConn == [kind |-> "none"]
CInit == cdef = NoConn /\ cout = <<>>
CDefine(cd) == cdef' = cd /\ cout' = <<>>
CEval == cdef # NoConn /\ cout = <<>> /\ cout' = ConnOf(cdef, CDeviations) /\ UNCHANGED cdef

(* ---- consequences ---------------------------------------------------------------- *)
Done_ == cdef # NoConn /\ cout # <<>>
CVals == Vals(cout)
SymmetricConn == Done_ => MSym(CVals)
ScaleDominatesConn == Done_ => \A i \in 1..Len(cout), j \in 1..Len(cout) : RLe(RAbs(cout[i][j][1]), cout[i][j][2])
ProbesNonNegativeConn == (Done_ /\ RSign(CompleteConn(cdef).kt) >= 0 /\ RSign(CompleteConn(cdef).kr) >= 0) =>
    \A k \in 1..4 : RSign(Quad(CVals, Fn([i \in 1..Len(cout) |-> RFromInt(((i * (k + 2) + k * k) % 7) - 3)]))) >= 0
(* proportional to the penalty constants: M(kt, kr) = kt M(1,0) + kr M(0,1) *)
LinearInConstants == (Done_ /\ ~cdef.auto) =>
    CVals = MAdd(MScale(cdef.kt, Vals(ConnOf([cdef EXCEPT !.kt = ROne, !.kr = RZero], CDeviations))),
                 MScale(cdef.kr, Vals(ConnOf([cdef EXCEPT !.kt = RZero, !.kr = ROne], CDeviations))))
(* zero for fields continuous across the interface: rigid translations of two unrestrained panels
   (1 = f0 + f2 along each axis), mapped through the frame change of the kind *)
AllFreePd(pd) == \A dof \in 1..3 : pd.fl[dof][1] = UnitFlags /\ pd.fl[dof][2] = UnitFlags
RigidVec(d, dof) == Fn([idx \in 1..Size(d) |->
    IF DofOf(d, idx) = dof /\ IOf(d, idx) \in {0, 2} /\ JOf(d, idx) \in {0, 2} THEN ROne ELSE RZero])
RigidPair(cd, dof1, dof2, s2) ==        \* unit translation of dof1 on panel 1 with s2 * unit translation of dof2 on panel 2
    LET d1 == CompleteDef(cd.pd1)  d2 == CompleteDef(cd.pd2)
    IN Fn([r \in 1..GSize(cd) |->
          IF r > Off1(cd) /\ r <= Off1(cd) + Size(d1) THEN RigidVec(d1, dof1)[r - Off1(cd)]
          ELSE IF r > Off2(cd) /\ r <= Off2(cd) + Size(d2) THEN RMul(s2, RigidVec(d2, dof2)[r - Off2(cd)])
          ELSE RZero])
Continuous(cd) ==
    CASE cd.kind \in {"SSycte", "SSxcte", "SB"} -> { <<U, U, ROne>>, <<V, V, ROne>>, <<W, W, ROne>> }
      [] cd.kind = "BFycte" -> { <<U, U, ROne>>, <<V, W, ROne>>, <<W, V, mOne>> }
      [] cd.kind = "BFxcte" -> { <<U, W, ROne>>, <<V, V, ROne>>, <<W, U, mOne>> }
ZeroOnContinuous == (Done_ /\ AllFreePd(cdef.pd1) /\ AllFreePd(cdef.pd2) /\ cdef.pd1.m >= 3 /\ cdef.pd1.n >= 3
                     /\ cdef.pd2.m >= 3 /\ cdef.pd2.n >= 3 /\ CDeviations = {}) =>
    \A t \in Continuous(cdef) : RIsZero(Quad(CVals, RigidPair(cdef, t[1], t[2], t[3])))
(* constants derived from two laminates: symmetric in the two panels, degree 1 in the elastic moduli *)
ScaleMat(pd, e) == [pd EXCEPT !.stack = Fn([k \in 1..Len(pd.stack) |-> [pd.stack[k] EXCEPT !.mat =
    Fn([q \in 1..Len(pd.stack[k].mat) |-> IF q \in {1, 2, 4, 5, 6, 7} THEN RMul(e, pd.stack[k].mat[q]) ELSE pd.stack[k].mat[q]])]])]
ConstantsLaws == (cdef # NoConn /\ cdef.auto) =>
    LET d1 == CompleteDef(cdef.pd1)  d2 == CompleteDef(cdef.pd2)  ct == CType(cdef.kind)
        e == RFromInt(3)
    IN /\ (ct # "bot-top" \/ (d1.a = d2.a /\ d1.b = d2.b)) => KtKr(d1, d2, ct) = KtKr(d2, d1, ct)
       /\ LET k == KtKr(d1, d2, ct)
              ks == KtKr(CompleteDef(ScaleMat(cdef.pd1, e)), CompleteDef(ScaleMat(cdef.pd2, e)), ct)
          IN ks = <<RMul(e, k[1]), RMul(e, k[2])>>
=============================================================================
