-------------------------------- MODULE PanelNL --------------------------------
(***************************************************************************)
(* Geometrically non-linear panel quantities (property C08, and the state-  *)
(* based geometric stiffness of C03) from first principles.                 *)
(*                                                                         *)
(* For a rational amplitude vector c the fields are bivariate polynomials  *)
(* in (xi, eta); Donnell / von Karman strains                              *)
(*   exx = u,x + 1/2 w,x^2   eyy = v,y (+ w/r) + 1/2 w,y^2                 *)
(*   gxy = u,y + v,x + w,x w,y         kappa = linear                      *)
(* strain energy U(c) = 1/2 INT eps^T F eps  (a quartic polynomial in c).  *)
(*   Fint_k = dU/dc_k      = INT (d eps_k)^T F eps                         *)
(*   KT_kl  = d2U/dc_k dc_l = INT (d eps_k)^T F (d eps_l) + INT (d2 eps_kl)^T F eps *)
(* with the first and second variations of the strains written out; every  *)
(* integral is an exact integral of a bivariate polynomial over [-1,1]^2.  *)
(***************************************************************************)
EXTENDS PanelFieldOps

(* ---- bivariate polynomials: P[p+1][q+1] = coefficient of xi^p eta^q, rectangular ---- *)
P2Zero == << <<RZero>> >>
P2Rows(P) == Len(P)
P2Cols(P) == Len(P[1])
P2Coef(P, p, q) == IF p <= Len(P) /\ q <= Len(P[1]) THEN P[p][q] ELSE RZero
P2Add(A, B) ==
    LET r == PMax(P2Rows(A), P2Rows(B))  c == PMax(P2Cols(A), P2Cols(B))
    IN Fn([p \in 1..r |-> Fn([q \in 1..c |-> RAdd(P2Coef(A, p, q), P2Coef(B, p, q))])])
P2Scale(s, A) == Fn([p \in 1..P2Rows(A) |-> Fn([q \in 1..P2Cols(A) |-> RMul(s, A[p][q])])])
P2Abs(A) == Fn([p \in 1..P2Rows(A) |-> Fn([q \in 1..P2Cols(A) |-> RAbs(A[p][q])])])
(* outer product f(xi) g(eta) of two univariate polynomials (zero polynomial = <<>>) *)
Outer(f, g) == IF f = <<>> \/ g = <<>> THEN P2Zero
               ELSE Fn([p \in 1..Len(f) |-> Fn([q \in 1..Len(g) |-> RMul(f[p], g[q])])])
(* product: coefficient (p,q) = SUM_{a<=p, b<=q} A[a][b] B[p-a][q-b] *)
P2Mul(A, B) ==
    LET ra == P2Rows(A)  ca == P2Cols(A)  rb == P2Rows(B)  cb == P2Cols(B)
    IN Fn([p \in 1..(ra + rb - 1) |-> Fn([q \in 1..(ca + cb - 1) |->
          LET alo == PMax(1, p + 1 - rb)  ahi == IF p < ra THEN p ELSE ra
              blo == PMax(1, q + 1 - cb)  bhi == IF q < ca THEN q ELSE ca
              na == ahi - alo + 1   nb == bhi - blo + 1
          IN RDot(Fn([k \in 1..(na * nb) |-> A[alo + ((k-1) \div nb)][blo + ((k-1) % nb)]]),
                  Fn([k \in 1..(na * nb) |-> B[p + 1 - (alo + ((k-1) \div nb))][q + 1 - (blo + ((k-1) % nb))]]))])])
(* integral over [-1,1]^2: INT xi^p = 0 (p odd), 2/(p+1) (p even) *)
Mom(p) == IF p % 2 = 1 THEN RZero ELSE RQ(2, p + 1)
P2Int(A) == RDot(Fn([k \in 1..(P2Rows(A) * P2Cols(A)) |-> A[((k-1) \div P2Cols(A)) + 1][((k-1) % P2Cols(A)) + 1]]),
                 Fn([k \in 1..(P2Rows(A) * P2Cols(A)) |-> RMul(Mom((k-1) \div P2Cols(A)), Mom((k-1) % P2Cols(A)))]))
(* integral of a product without forming it *)
P2IntMul(A, B) ==
    LET ra == P2Rows(A)  ca == P2Cols(A)  rb == P2Rows(B)  cb == P2Cols(B)
        MX == Fn([p \in 1..ra |-> Fn([r \in 1..rb |-> Mom(p + r - 2)])])
        MY == Fn([q \in 1..ca |-> Fn([s \in 1..cb |-> Mom(q + s - 2)])])
        (* TT[p][s] = SUM_q A[p][q] MY[q][s] ;  result = SUM_{p,r,s} TT[p][s] MX[p][r] B[r][s] *)
        TT == Fn([p \in 1..ra |-> Fn([s \in 1..cb |-> RDot(A[p], Fn([q \in 1..ca |-> MY[q][s]]))])])
        Bt == Fn([s \in 1..cb |-> Fn([r \in 1..rb |-> B[r][s]])])
    IN RSum(Fn([k \in 1..(ra * cb) |->
          LET p == ((k-1) \div cb) + 1   s == ((k-1) % cb) + 1
          IN RMul(TT[p][s], RDot(MX[p], Bt[s]))]))
(* bound of |P| on the square: sum of |coefficients| *)
P2Norm(A) == RSum(Fn([p \in 1..P2Rows(A) |-> RAbsSum(A[p])]))

(* ---- fields of a state ---------------------------------------------------------- *)
(* basis function of amplitude idx, derivative (dx,dy) in physical coordinates *)
BasisP2(d, idx, dx, dy) ==
    LET dof == DofOf(d, idx)  i == IOf(d, idx)  j == JOf(d, idx)
    IN P2Scale(RMul(RMul(Flag(i, d.fl[dof][1]), Flag(j, d.fl[dof][2])),
                    RMul(RPow(RDiv(Two, d.a), dx), RPow(RDiv(Two, d.b), dy))),
               Outer(D(i, dx), D(j, dy)))
RECURSIVE P2SumFrom(_,_,_,_)
P2SumFrom(f(_), k, n, acc) == IF k > n THEN acc ELSE P2SumFrom(f, k+1, n, P2Add(acc, f(k)))
FieldP2(d, c, dof, dx, dy) ==
    LET f(idx) == IF DofOf(d, idx) = dof /\ ~RIsZero(c[idx]) THEN P2Scale(c[idx], BasisP2(d, idx, dx, dy)) ELSE P2Zero
    IN P2SumFrom(f, 1, Size(d), P2Zero)

(* linear strain rows of the kinematic table applied to a P2-valued accessor acc(dof,dx,dy) *)
RowP2(row, k, acc(_,_,_)) ==
    LET f(x) == P2Scale(row[x].c, acc(row[x].dof, row[x].dx, row[x].dy)) IN P2SumFrom(f, k, Len(row), P2Zero)
NLTable(d) == Strain(FieldModel(d), RZero, IF d.model = "cpanel" THEN RInv(d.r) ELSE RZero)
half == RQ(1, 2)
(* strains of the state: NL = TRUE adds the von Karman terms *)
StateStrains(d, c, NL) ==
    LET acc(dof, dx, dy) == FieldP2(d, c, dof, dx, dy)
        st == NLTable(d)
        lin == Fn([p \in 1..6 |-> RowP2(st[p], 1, acc)])
        wx == acc(W, 1, 0)   wy == acc(W, 0, 1)
    IN IF NL THEN << P2Add(lin[1], P2Scale(half, P2Mul(wx, wx))), P2Add(lin[2], P2Scale(half, P2Mul(wy, wy))),
                     P2Add(lin[3], P2Mul(wx, wy)), lin[4], lin[5], lin[6] >>
       ELSE lin
(* first variation of the strains in the direction of amplitude idx *)
VarStrains(d, idx, wx, wy, NL) ==
    LET acc(dof, dx, dy) == IF DofOf(d, idx) = dof THEN BasisP2(d, idx, dx, dy) ELSE P2Zero
        st == NLTable(d)
        lin == Fn([p \in 1..6 |-> RowP2(st[p], 1, acc)])
        isw == DofOf(d, idx) = W
        bx == acc(W, 1, 0)   by == acc(W, 0, 1)
    IN IF NL /\ isw THEN << P2Add(lin[1], P2Mul(wx, bx)), P2Add(lin[2], P2Mul(wy, by)),
                            P2Add(lin[3], P2Add(P2Mul(wx, by), P2Mul(wy, bx))), lin[4], lin[5], lin[6] >>
       ELSE lin
Jac(d) == RDiv(RMul(d.a, d.b), RFromInt(4))
(* resultants N = F eps (six P2s), and their norm bound with Fs *)
Resultants(F, eps) == Fn([p \in 1..6 |-> LET f(q) == P2Scale(F[p][q], eps[q]) IN P2SumFrom(f, 1, 6, P2Zero)])
NormVec(eps) == Fn([p \in 1..6 |-> P2Norm(eps[p])])
MScaleV(s, v) == Fn([p \in 1..Len(v) |-> RMul(s, v[p])])

(* laminate varying over the panel as F(xi,eta) = (t0 + tx xi + ty eta) F : the per-point laminate tables
   the numerical kernels accept; tp = <<t0, tx, ty>>, uniform = <<1, 0, 0>> *)
Uniform == <<ROne, RZero, RZero>>
TaperP2(tp) == << <<tp[1], tp[3]>>, <<tp[2], RZero>> >>
ScaleAll(t, v) == Fn([p \in 1..Len(v) |-> P2Mul(t, v[p])])

(* internal force vector: <<value, scale>> per amplitude *)
FintT(d, c, tp) ==
    LET eps == StateStrains(d, c, TRUE)
        Nr == ScaleAll(TaperP2(tp), Resultants(d.F, eps))
        Nn == MScaleV(P2Norm(TaperP2(tp)), MVec(d.Fs, NormVec(eps)))
        wx == FieldP2(d, c, W, 1, 0)   wy == FieldP2(d, c, W, 0, 1)
    IN Fn([k \in 1..Size(d) |->
          LET de == VarStrains(d, k, wx, wy, TRUE)
          IN << RMul(Jac(d), RSum(Fn([p \in 1..6 |-> P2IntMul(de[p], Nr[p])]))),
                RMul(RMul(Jac(d), RFromInt(4)), RDot(NormVec(de), Nn)) >>])
Fint(d, c) == FintT(d, c, Uniform)

(* tangent stiffness; NLk / NLg: whether the von Karman terms enter the constitutive part / the
   resultants of the geometric part (the package's kT uses both; its state-based kG uses NLg only) *)
TangentPartsT(d, c, withK, withG, NLk, NLg, full, tp) ==
    LET wx == FieldP2(d, c, W, 1, 0)   wy == FieldP2(d, c, W, 0, 1)
        n == Size(d)
        de == Fn([k \in 1..n |-> VarStrains(d, k, wx, wy, NLk)])
        G == Fn([l \in 1..n |-> ScaleAll(TaperP2(tp), Resultants(d.F, de[l]))])
        tn == P2Norm(TaperP2(tp))
        dn == Fn([k \in 1..n |-> NormVec(de[k])])
        epsG == StateStrains(d, c, NLg)
        Ng == ScaleAll(TaperP2(tp), Resultants(d.F, epsG))
        NgN == MScaleV(tn, MVec(d.Fs, NormVec(epsG)))
        bx == Fn([k \in 1..n |-> IF DofOf(d, k) = W THEN BasisP2(d, k, 1, 0) ELSE P2Zero])
        by == Fn([k \in 1..n |-> IF DofOf(d, k) = W THEN BasisP2(d, k, 0, 1) ELSE P2Zero])
        entry(k, l) ==
            LET cons == IF withK THEN RSum(Fn([p \in 1..6 |-> P2IntMul(de[k][p], G[l][p])])) ELSE RZero
                consS == IF withK THEN RMul(RMul(tn, RFromInt(4)), RDot(dn[k], MVec(d.Fs, dn[l]))) ELSE RZero
                isw == DofOf(d, k) = W /\ DofOf(d, l) = W
                geo == IF withG /\ isw
                       THEN RAdd(P2IntMul(P2Mul(bx[k], bx[l]), Ng[1]),
                                 RAdd(P2IntMul(P2Mul(by[k], by[l]), Ng[2]),
                                      P2IntMul(P2Add(P2Mul(bx[k], by[l]), P2Mul(by[k], bx[l])), Ng[3])))
                       ELSE RZero
                geoS == IF withG /\ isw
                        THEN RMul(RFromInt(4), RAdd(RMul(RMul(P2Norm(bx[k]), P2Norm(bx[l])), NgN[1]),
                                 RAdd(RMul(RMul(P2Norm(by[k]), P2Norm(by[l])), NgN[2]),
                                      RMul(RAdd(RMul(P2Norm(bx[k]), P2Norm(by[l])), RMul(P2Norm(by[k]), P2Norm(bx[l]))), NgN[3]))))
                        ELSE RZero
            IN << RMul(Jac(d), RAdd(cons, geo)), RMul(Jac(d), RAdd(consS, geoS)) >>
        (* full = TRUE evaluates every entry from its own formula (used to check symmetry);
           otherwise the lower triangle is copied from the upper one *)
        upper == Fn([k \in 1..n |-> Fn([l \in 1..n |-> IF k <= l \/ full THEN entry(k, l) ELSE PairZero])])
    IN Fn([k \in 1..n |-> Fn([l \in 1..n |-> IF k <= l \/ full THEN upper[k][l] ELSE upper[l][k]])])
TangentParts(d, c, withK, withG, NLk, NLg, full) == TangentPartsT(d, c, withK, withG, NLk, NLg, full, Uniform)
KT(d, c) == TangentParts(d, c, TRUE, TRUE, TRUE, TRUE, FALSE)
KTT(d, c, tp) == TangentPartsT(d, c, TRUE, TRUE, TRUE, TRUE, FALSE, tp)
KTFull(d, c) == TangentParts(d, c, TRUE, TRUE, TRUE, TRUE, TRUE)
(* tolerance scale of the linear stiffness when it is integrated numerically: the quadrature sums carry
   rounding noise of every strain-variation product, also of those whose exact integral vanishes *)
QuadScale(d) ==
    LET n == Size(d)
        dn == Fn([k \in 1..n |-> NormVec(VarStrains(d, k, P2Zero, P2Zero, FALSE))])
    IN Fn([k \in 1..n |-> Fn([l \in 1..n |-> RMul(RMul(Jac(d), RFromInt(4)), RDot(dn[k], MVec(d.Fs, dn[l])))])])
(* state-based geometric stiffness: resultants of the state (linear strains unless NL) *)
KGState(d, c, NL) == TangentParts(d, c, FALSE, TRUE, FALSE, NL, FALSE)
KGStateT(d, c, NL, tp) == TangentPartsT(d, c, FALSE, TRUE, FALSE, NL, FALSE, tp)
(* strain energy of a state *)
Energy(d, c) == LET eps == StateStrains(d, c, TRUE)  Nr == Resultants(d.F, eps)
                IN RMul(RMul(half, Jac(d)), RSum(Fn([p \in 1..6 |-> P2IntMul(eps[p], Nr[p])])))
=============================================================================
