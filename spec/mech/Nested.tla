--------------------------------- MODULE Nested ---------------------------------
(***************************************************************************)
(* Property C15.  (a) The trial spaces are nested: the matrices of orders   *)
(* (m,n) are the principal sub-matrices of those of (m+1,n) and (m,n+1)     *)
(* under the embedding (dof,i,j) -> (dof,i,j); with a positive definite     *)
(* stiffness, Courant-Fischer then gives that no eigenvalue of the lowest   *)
(* ones can rise when terms are added (cited theorem).                      *)
(* (b) For simply supported specially orthotropic plates the Ritz values    *)
(* lie above the classical double-sine closed forms.  pi is carried as the  *)
(* rational interval [PiLo, PiHi]; ClosedBuckling / ClosedFreq2 return      *)
(* rational brackets <<lo, hi>> of the exact values.                        *)
(***************************************************************************)
EXTENDS PanelModel

(* ---- (a) nestedness --------------------------------------------------------- *)
EmbedIdx(d, d2, idx) == Idx(d2, DofOf(d, idx), IOf(d, idx), JOf(d, idx))
NestedLaw == (Evaluated /\ req.size = 0 /\ req.q \in {"k0", "kG0", "kM"}) =>
    \A inc \in { <<1, 0>>, <<0, 1>> } :
        LET d2 == [def EXCEPT !.m = def.m + inc[1], !.n = def.n + inc[2]]
            K2 == Vals(QuantityDev(d2, req, Deviations))
        IN \A i \in 1..N_, j \in 1..N_ : OutVals[i][j] = K2[EmbedIdx(def, d2, i)][EmbedIdx(def, d2, j)]

(* ---- (b) closed forms --------------------------------------------------------- *)
PiLo == RQ(314159265, 100000000)
PiHi == RQ(314159266, 100000000)
Sq(x) == RMul(x, x)
(* bracket arithmetic for positive quantities *)
BMulP(x, y) == <<RMul(x[1], y[1]), RMul(x[2], y[2])>>
BAddP(x, y) == <<RAdd(x[1], y[1]), RAdd(x[2], y[2])>>
BDivP(x, y) == <<RDiv(x[1], y[2]), RDiv(x[2], y[1])>>
BConst(c) == <<c, c>>
Pi2 == <<Sq(PiLo), Sq(PiHi)>>
(* alpha^2 = (p pi / a)^2 *)
Wave2(p, a) == BMulP(BConst(RDiv(RFromInt(p * p), Sq(a))), Pi2)
(* D11 al^4 + 2 (D12 + 2 D66) al^2 be^2 + D22 be^4  for half-wave numbers (p, q) *)
BendForm(d, p, q) ==
    LET al2 == Wave2(p, d.a)  be2 == Wave2(q, d.b)
        D11 == d.F[4][4]  D12 == d.F[4][5]  D22 == d.F[5][5]  D66 == d.F[6][6]
    IN BAddP(BMulP(BConst(D11), BMulP(al2, al2)),
             BAddP(BMulP(BConst(RMul(Two, RAdd(D12, RMul(Two, D66)))), BMulP(al2, be2)),
                   BMulP(BConst(D22), BMulP(be2, be2))))
(* buckling multiplier of the load pattern (Nxx, Nyy) = -lambda (kx, ky), kx, ky >= 0 not both zero *)
BuckMode(d, kx, ky, p, q) ==
    BDivP(BendForm(d, p, q), BAddP(BMulP(BConst(kx), Wave2(p, d.a)), BMulP(BConst(ky), Wave2(q, d.b))))
(* omega^2 with rotary inertia: BendForm / (mu h + mu h^3/12 (al^2 + be^2)) *)
FreqMode2(d, p, q) ==
    BDivP(BendForm(d, p, q),
          BAddP(BConst(RMul(d.mu, d.h)),
                BMulP(BConst(RDiv(RMul(d.mu, RMul(d.h, Sq(d.h))), RFromInt(12))), BAddP(Wave2(p, d.a), Wave2(q, d.b)))))
MaxWaves == 12
RECURSIVE MinBracket(_,_)
MinBracket(f(_,_), k) ==      \* min over (p,q) in 1..MaxWaves x 1..MaxWaves, k enumerates pairs
    LET p == ((k-1) \div MaxWaves) + 1   q == ((k-1) % MaxWaves) + 1   v == f(p, q)
    IN IF k = MaxWaves * MaxWaves THEN v
       ELSE LET w == MinBracket(f, k+1) IN <<RMin(v[1], w[1]), RMin(v[2], w[2])>>
ClosedBuckling(d, kx, ky) == LET f(p, q) == BuckMode(d, kx, ky, p, q) IN MinBracket(f, 1)
ClosedFreq2(d) == LET f(p, q) == FreqMode2(d, p, q) IN MinBracket(f, 1)

SpeciallyOrthotropic(d) ==
    /\ \A p \in 1..3, q \in 4..6 : RIsZero(d.F[p][q])             \* B = 0
    /\ RIsZero(d.F[4][6]) /\ RIsZero(d.F[5][6]) /\ RIsZero(d.off)
SimplySupportedW(d) == \A ax \in 1..2 : d.fl[W][ax] = <<RZero, ROne, RZero, ROne>>

(* Rayleigh quotients of probe vectors lie above the closed-form minimum (exact, on the spec's matrices):
   v^T K0 v >= lambda_lo * v^T (-KG0) v   for compressive patterns; v^T K0 v >= omega2_lo v^T KM v *)
WProbe(k, d) == Fn([idx \in 1..Size(d) |-> IF DofOf(d, idx) = W THEN RFromInt(((idx * (k + 2) + k) % 5) - 2) ELSE RZero])
RayleighAboveClosedForm ==
    (Evaluated /\ req.size = 0 /\ def.model \in {"plate", "plate_w"} /\ SpeciallyOrthotropic(def) /\ SimplySupportedW(def)
     /\ def.y1 = RZero /\ def.y2 = def.b /\ def.Ncte = <<RZero, RZero, RZero>>) =>
      /\ (req.q = "kG0" /\ RSign(req.N[1]) <= 0 /\ RSign(req.N[2]) <= 0 /\ RIsZero(req.N[3]) /\ req.N # <<RZero, RZero, RZero>>) =>
            LET lo == ClosedBuckling(def, RNeg(req.N[1]), RNeg(req.N[2]))[1]
                K == Vals(K0Lin(def))
            IN \A k \in 1..4 : RLe(RMul(lo, RNeg(Quad(OutVals, WProbe(k, def)))), Quad(K, WProbe(k, def)))
      /\ (req.q = "kM") =>
            LET lo == ClosedFreq2(def)[1]
                K == Vals(K0Lin(def))
            IN \A k \in 1..4 : RLe(RMul(lo, Quad(OutVals, WProbe(k, def))), Quad(K, WProbe(k, def)))
=============================================================================
