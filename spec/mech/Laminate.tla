------------------------------- MODULE Laminate -------------------------------
(* Property C01 as a state machine over ply stacks; the definitions (ABDE =   *)
(* through-thickness integral of the rotated ply stiffness) are in LaminateOps.*)
EXTENDS LaminateOps

(* ---- the state machine ---------------------------------------------------- *)
CONSTANTS Dirs, Thicks, Mats, Offsets, MaxPlies, MaxLen
VARIABLES stack, offset, out, last
vars == <<stack, offset, out, last>>

Ply == [dir : Dirs, t : Thicks, mat : Mats]
Stacks == UNION { [1..n -> Ply] : n \in 1..MaxPlies }

Set(s, d, what) == /\ stack' = s /\ offset' = d /\ out' = ABDE(s, d) /\ last' = what
Init == /\ stack \in Stacks /\ offset \in Offsets /\ out = ABDE(stack, offset) /\ last = "define"
MirrorPly(p) == [p EXCEPT !.dir = <<-p.dir[1], p.dir[2]>>]
Rot90Ply(p) == [p EXCEPT !.dir = <<p.dir[2], -p.dir[1]>>]    \* theta -> theta + 90 deg (mod 180)
Reverse(s) == [k \in 1..Len(s) |-> s[Len(s) + 1 - k]]
Mirror == Set([k \in 1..Len(stack) |-> MirrorPly(stack[k])], offset, "mirror")
Rotate90 == Set([k \in 1..Len(stack) |-> Rot90Ply(stack[k])], offset, "rot90")
Swap(i, j) == Set([stack EXCEPT ![i] = stack[j], ![j] = stack[i]], offset, "swap")
Symmetrize == 2*Len(stack) <= MaxLen /\ Set(stack \o Reverse(stack), RZero, "symmetrize")
Shift(d) == Set(stack, d, "shift")
Next == \/ Mirror \/ Rotate90 \/ Symmetrize
        \/ \E i, j \in 1..Len(stack) : i < j /\ Swap(i, j)
        \/ \E d \in Offsets : d # offset /\ Shift(d)
Spec == Init /\ [][Next]_vars

(* ---- consequences (state invariants) ------------------------------------- *)
AdmissibleStack == \A k \in 1..Len(stack) : Admissible(stack[k].mat) /\ RSign(stack[k].t) > 0
SymmetricABD == MSym(ABD6(out)) /\ MSym(out.E)
PositiveDefinite == AdmissibleStack => PosDef(ABD6(out)) /\ PosDef(out.E)
(* B(d) = B(0) + d A ;  D(d) = D(0) + 2 d B(0) + d^2 A *)
OffsetLaw == LET o == ABDE(stack, RZero)
             IN /\ out.A = o.A /\ out.E = o.E
                /\ out.B = MAdd(o.B, MScale(offset, o.A))
                /\ out.D = MAdd(o.D, MAdd(MScale(RMul(Two, offset), o.B), MScale(RMul(offset, offset), o.A)))
(* uniform-argument form (one thickness / material for all plies) is the per-ply form: by
   construction in this model both are the same stack; the binding checks both call forms. *)

(* ---- consequences (action properties) ------------------------------------ *)
(* mirroring every angle flips the sign of the 16/26 entries (and of E45), leaves the rest *)
FlipSign == << <<1,1,-1>>, <<1,1,-1>>, <<-1,-1,1>> >>
Signed(M, S) == Fn([i \in 1..Rows(M) |-> Fn([j \in 1..Cols(M) |-> IF S[i][j] = 1 THEN M[i][j] ELSE RNeg(M[i][j])])])
MirrorLaw == [][last' = "mirror" =>
                 /\ out'.A = Signed(out.A, FlipSign) /\ out'.B = Signed(out.B, FlipSign)
                 /\ out'.D = Signed(out.D, FlipSign)
                 /\ out'.E = Signed(out.E, << <<1,-1>>, <<-1,1>> >>)]_vars
(* rotating every ply by 90 degrees: 11<->22, 16 -> -26, 26 -> -16, 12 and 66 fixed; E44<->E55, E45 -> -E45 *)
Rot3(M) == M3(M[2][2], M[1][2], RNeg(M[2][3]),
              M[1][2], M[1][1], RNeg(M[1][3]),
              RNeg(M[2][3]), RNeg(M[1][3]), M[3][3])
Rot90Law == [][last' = "rot90" =>
                /\ out'.A = Rot3(out.A) /\ out'.B = Rot3(out.B) /\ out'.D = Rot3(out.D)
                /\ out'.E = << <<out.E[2][2], RNeg(out.E[1][2])>>, <<RNeg(out.E[1][2]), out.E[1][1]>> >>]_vars
(* A (and E) do not depend on ply order *)
OrderLaw == [][last' = "swap" => out'.A = out.A /\ out'.E = out.E]_vars
(* a mid-plane symmetric stack with d = 0 has B = 0 and twice the A of the half stack *)
SymmetricLaw == [][last' = "symmetrize" =>
                    /\ out'.B = MZero(3,3)
                    /\ out'.A = MScale(Two, out.A)]_vars
ShiftLaw == [][last' = "shift" => out'.A = out.A /\ out'.E = out.E]_vars
=============================================================================
