------------------------------- MODULE Assembly -------------------------------
(***************************************************************************)
(* Property C13: an assembled matrix / vector is the sum of the stand-alone *)
(* component quantities placed at the components' amplitude ranges, plus    *)
(* the penalty connection matrices; the reported size is the sum of the     *)
(* component sizes; a uniformly laminated bay skin may be cut anywhere.     *)
(*                                                                         *)
(* Placement algebra.  A *segment* Seg(g, l, n) maps the n local amplitudes *)
(* l+1..l+n of a component to the global amplitudes g+1..g+n.  A component's *)
(* placement is a sequence of segments (one for a panel of an assembly; the  *)
(* shared skin range plus an own range for a 2-D stiffener of a bay).        *)
(*   PlaceSegs(M, size, segs)   the component matrix inside a size x size one *)
(*   Global(q) = SUM_k PlaceSegs(Component_k(q), Size, segs_k) + SUM Conn_j   *)
(*                                                                         *)
(* PanelAssembly: ranges are running sums of 3 m n in list order.            *)
(* StiffPanelBay: skin tiles and 1-D blade stiffeners live on the skin range *)
(* 1..N0 (N0 = num m n); 2-D blade stiffener flanges, then T stiffener       *)
(* (base, flange) pairs own consecutive ranges after N0, each kind in the    *)
(* order of insertion.                                                       *)
(*                                                                         *)
(* For a stiffened bay the module decides WHERE each stand-alone component    *)
(* matrix lands (placement of the code's own component matrices) and, for    *)
(* the 2-D stiffeners, also WHAT lands: BladeStiff2D and TStiff2D k0 / kG0 / *)
(* kM are derived below from PanelOps, ConnectionOps and Bardell (section    *)
(* "the 2-D stiffeners"), and so are BladeStiff1D's (padup strip + flange as *)
(* a laminated strip on the line y = ys: stiffness, axial-load geometric     *)
(* stiffness, mass).                                                         *)
(***************************************************************************)
EXTENDS ConnectionOps, PanelNL

CONSTANTS ADeviations     \* named deviations switched on; {} = the literal property

VARIABLES adef, areq, aout
avars == <<adef, areq, aout>>

(* ---- placement algebra ------------------------------------------------------- *)
Seg(g, l, n) == [g |-> g, l |-> l, n |-> n]
(* local index of global index r (0: the component has no amplitude there) *)
LocOf(segs, r) ==
    LET hit == SelectSeq(segs, LAMBDA s : r > s.g /\ r <= s.g + s.n)
    IN IF hit = <<>> THEN 0 ELSE hit[1].l + (r - hit[1].g)
LocTable(segs, size) == Fn([r \in 1..size |-> LocOf(segs, r)])
PlaceSegs(M, size, segs) ==
    LET loc == LocTable(segs, size)
    IN Fn([r \in 1..size |-> Fn([c \in 1..size |->
          IF loc[r] = 0 \/ loc[c] = 0 THEN PairZero ELSE M[loc[r]][loc[c]]])])
PlaceVecSegs(v, size, segs) ==
    LET loc == LocTable(segs, size)
    IN Fn([r \in 1..size |-> IF loc[r] = 0 THEN PairZero ELSE v[loc[r]]])
(* global indices a placement covers *)
Covered(segs) == UNION { (segs[k].g + 1)..(segs[k].g + segs[k].n) : k \in 1..Len(segs) }

RECURSIVE Prefix(_,_)
Prefix(s, k) == IF k = 0 THEN 0 ELSE s[k] + Prefix(s, k-1)          \* s[1] + ... + s[k]
Offsets(sizes) == Fn([k \in 1..Len(sizes) |-> Prefix(sizes, k-1)])   \* running sums
Total(sizes) == Prefix(sizes, Len(sizes))

VZero(n) == Fn([k \in 1..n |-> PairZero])
VAdd(a, b) == Fn([k \in 1..Len(a) |-> PAdd2(a[k], b[k])])
RECURSIVE VSumFrom(_,_,_,_)
VSumFrom(f(_), k, n, acc) == IF k > n THEN acc ELSE VSumFrom(f, k+1, n, VAdd(acc, f(k)))
Slice(c, off, n) == Fn([k \in 1..n |-> c[off + k]])
(* matrix of <<value, scale>> times a rational vector: <<SUM v c, SUM s |c|>> per row *)
PairMatVec(M, c) ==
    LET ca == Fn([k \in 1..Len(c) |-> RAbs(c[k])])
    IN Fn([r \in 1..Len(M) |-> << RDot(Fn([j \in 1..Len(c) |-> M[r][j][1]]), c),
                                  RDot(Fn([j \in 1..Len(c) |-> M[r][j][2]]), ca) >>])

(* ================================ PanelAssembly ================================= *)
(* description  [kind |-> "asm", pds |-> <<panel descriptions>>,                     *)
(*               conns |-> << [kind, p1, p2 (positions in pds), pos1, pos2] >>]      *)
(* PanelAssembly counts three amplitudes per series term whatever the model          *)
PanelSize3(pd) == 3 * pd.m * pd.n
AsmSizes(ad) == Fn([k \in 1..Len(ad.pds) |-> PanelSize3(ad.pds[k])])
AsmOffs(ad) == Offsets(AsmSizes(ad))
AsmSize(ad) == Total(AsmSizes(ad))
AsmSegs(ad, k) == << Seg(AsmOffs(ad)[k], 0, AsmSizes(ad)[k]) >>
AsmDefs(ad) == Fn([k \in 1..Len(ad.pds) |-> CompleteDef(ad.pds[k])])

(* connection j with the penalty constants the package derives from the two laminates *)
HalfSum(pd1, pd2) == RAdd(RDiv(Thickness(pd1.stack), Two), RDiv(Thickness(pd2.stack), Two))
AsmConn(ad, defs, j) ==
    LET cj == ad.conns[j]
        d1 == defs[cj.p1]   d2 == defs[cj.p2]
        kk == KtKr(d1, d2, CType(cj.kind))
    IN [kind |-> cj.kind, d1 |-> d1, d2 |-> d2, pos1 |-> cj.pos1, pos2 |-> cj.pos2,
        kt |-> kk[1], kr |-> kk[2], dsb |-> HalfSum(ad.pds[cj.p1], ad.pds[cj.p2])]
ConnPart(ad, defs) ==
    LET size == AsmSize(ad)
        offs == AsmOffs(ad)
        f(j) == ConnMatrix(AsmConn(ad, defs, j), size, offs[ad.conns[j].p1], offs[ad.conns[j].p2], {})
    IN PSumFrom(f, 1, Len(ad.conns), PZero(size))

(* requests: [q |-> "size"], "k0", "kM", [q |-> "kG0", N |-> <<per panel <<Nxx,Nyy,Nxy>> >>],
   [q |-> "fext", forces, forcesInc (per panel lists), inc], [q |-> "fint"|"kT"|"kGc", c] (global state),
   [q |-> "fint_part", k, c]: the placed internal-force contribution of panel k alone *)
IsMatQ(q) == q \in {"k0", "kG0", "kM", "kT", "kGc"}
PanelMat(d, k, r, cs, dev) ==
    CASE r.q = "k0"  -> K0(d)
      [] r.q = "kG0" -> KG0(d, r.N[k])
      [] r.q = "kM"  -> KM(d, dev)
      [] r.q = "kT"  -> KT(d, cs)
      (* geometric stiffness from a state: the membrane resultants of the panel's own slice, LINEAR strains *)
      [] r.q = "kGc" -> KGState(d, cs, FALSE)
AsmMatrix(ad, r, dev) ==
    LET size == AsmSize(ad)
        defs == AsmDefs(ad)
        offs == AsmOffs(ad)
        f(k) == PlaceSegs(PanelMat(defs[k], k, r, IF r.q \in {"kT", "kGc"} THEN Slice(r.c, offs[k], Size(defs[k])) ELSE <<>>, dev),
                          size, AsmSegs(ad, k))
        panels == PSumFrom(f, 1, Len(ad.pds), PZero(size))
    IN IF r.q \in {"k0", "kT"} /\ Len(ad.conns) > 0 THEN PAddM(panels, ConnPart(ad, defs)) ELSE panels
AsmFintPart(ad, defs, k, c) ==
    PlaceVecSegs(Fint(defs[k], Slice(c, AsmOffs(ad)[k], Size(defs[k]))), AsmSize(ad), AsmSegs(ad, k))
AsmVector(ad, r, dev) ==
    LET size == AsmSize(ad)
        defs == AsmDefs(ad)
    IN CASE r.q = "fext" ->
              LET f(k) == PlaceVecSegs(Fext(defs[k], r.forces[k], r.forcesInc[k], r.inc), size, AsmSegs(ad, k))
              IN VSumFrom(f, 1, Len(ad.pds), VZero(size))
         [] r.q = "fint" ->
              LET f(k) == AsmFintPart(ad, defs, k, r.c)
                  panels == VSumFrom(f, 1, Len(ad.pds), VZero(size))
              IN IF Len(ad.conns) > 0 THEN VAdd(panels, PairMatVec(ConnPart(ad, defs), r.c)) ELSE panels
         [] r.q = "fint_part" -> AsmFintPart(ad, defs, r.k, r.c)
AsmQuantity(ad, r, dev) ==
    IF r.q = "size" THEN AsmSize(ad)
    ELSE IF IsMatQ(r.q) THEN AsmMatrix(ad, r, dev) ELSE AsmVector(ad, r, dev)
(* what the call does: "value" or "raises".  Literal property: every request of a defined
   assembly yields its value.
   KF_C13_AssemblyWithoutConnectionsRaises: the connection part starts from the number 0., so the
     stiffness / tangent of an assembly with an empty connection list cannot be finalised.
   KF_C20_Assembly_calc_fint_sum (owned by C20): the summation of the panels' internal-force
     vectors fails with a TypeError in every state. *)
AsmOutcome(ad, r, dev) ==
    IF r.q = "fint" /\ "KF_C20_Assembly_calc_fint_sum" \in dev THEN "TypeError"
    ELSE IF r.q \in {"k0", "kT"} /\ Len(ad.conns) = 0 /\ "KF_C13_AssemblyWithoutConnectionsRaises" \in dev THEN "AttributeError"
    ELSE "value"

(* ================================ StiffPanelBay ================================= *)
(* description [kind |-> "bay", skin |-> pd of the uncut skin (y1 = 0, y2 = b),               *)
(*              cuts |-> <<y positions, increasing, inside (0, b)>>,                          *)
(*              stiffs |-> << [kind |-> "b1d"|"b2d"|"t2d", ys, base, flange (BOOLEAN),        *)
(*                             bb, bf, mb, nb, mf, nf] >> in order of insertion]              *)
SkinN0(bd) == Size(bd.skin)                     \* num m n of the skin model
Edges(bd) == <<RZero>> \o bd.cuts \o <<bd.skin.b>>
NTiles(bd) == Len(bd.cuts) + 1
TilePd(bd, t) == [bd.skin EXCEPT !.y1 = Edges(bd)[t], !.y2 = Edges(bd)[t+1]]
(* amplitudes a stiffener brings of its own: the flange of a 2-D blade stiffener,
   base then flange of a T stiffener; a 1-D stiffener (and a padup) lives on the skin's *)
OwnSize(sd) == CASE sd.kind = "b1d" -> 0
                 [] sd.kind = "b2d" -> IF sd.flange THEN 3 * sd.mf * sd.nf ELSE 0
                 [] sd.kind = "t2d" -> 3 * sd.mb * sd.nb + 3 * sd.mf * sd.nf
(* stiffener j is laid out before stiffener i: all 2-D blades (in order of insertion), then all T's *)
Before(bd, j, i) ==
    LET kj == bd.stiffs[j].kind  ki == bd.stiffs[i].kind
    IN \/ ki = "b2d" /\ kj = "b2d" /\ j < i
       \/ ki = "t2d" /\ (kj = "b2d" \/ (kj = "t2d" /\ j < i))
OwnOff(bd, i) == SkinN0(bd) + Total(Fn([j \in 1..Len(bd.stiffs) |-> IF Before(bd, j, i) THEN OwnSize(bd.stiffs[j]) ELSE 0]))
BaySize(bd) == SkinN0(bd) + Total(Fn([j \in 1..Len(bd.stiffs) |-> OwnSize(bd.stiffs[j])]))
SkinSegs(bd) == << Seg(0, 0, SkinN0(bd)) >>
(* stand-alone stiffener matrix: skin amplitudes first, own amplitudes after them *)
StiffSegs(bd, i) == IF OwnSize(bd.stiffs[i]) = 0 THEN SkinSegs(bd)
                    ELSE << Seg(0, 0, SkinN0(bd)), Seg(OwnOff(bd, i), SkinN0(bd), OwnSize(bd.stiffs[i])) >>
StandAloneSize(bd, i) == SkinN0(bd) + OwnSize(bd.stiffs[i])
(* components in the order tiles 1..T, then stiffeners in order of insertion *)
NComp(bd) == NTiles(bd) + Len(bd.stiffs)
CompSegs(bd, k) == IF k <= NTiles(bd) THEN SkinSegs(bd) ELSE StiffSegs(bd, k - NTiles(bd))
CompSize(bd, k) == IF k <= NTiles(bd) THEN SkinN0(bd) ELSE StandAloneSize(bd, k - NTiles(bd))
BayPlacement(bd) == Fn([k \in 1..NComp(bd) |-> [size |-> CompSize(bd, k), segs |-> CompSegs(bd, k)]])

(* the skin part: every tile on the skin range.  r.N: the uniform membrane load <<Nxx,Nyy,Nxy>> *)
SkinMat(d, r, dev) == CASE r.q = "k0" -> K0(d) [] r.q = "kG0" -> KG0(d, r.N) [] r.q = "kM" -> KM(d, dev)
SkinSum(bd, r, dev) ==
    LET f(t) == PlaceSegs(SkinMat(CompleteDef(TilePd(bd, t)), r, dev), BaySize(bd), SkinSegs(bd))
    IN PSumFrom(f, 1, NTiles(bd), PZero(BaySize(bd)))
SkinUncut(bd, r, dev) == PlaceSegs(SkinMat(CompleteDef(bd.skin), r, dev), BaySize(bd), SkinSegs(bd))

(* point loads <<x, y, fx, fy, fz>> on the skin (r.skin: virtual work against the skin's series, on the
   skin range) and on the 2-D parts of the stiffeners: r.forces[i] = [base |-> forces, flange |-> forces].
   The parts' series are the ones the stiffener classes construct: length a of the bay, width bb / bf,
   flange restrained along x like a simply supported plate and free along y; base free. *)
F0000 == <<RZero, RZero, RZero, RZero>>
F1010 == <<ROne, RZero, ROne, RZero>>
F0101 == <<RZero, ROne, RZero, ROne>>
FlangeFlags == << <<F0000, F1010>>, <<F0000, F1010>>, <<F0101, UnitFlags>> >>
BaseFlags == << <<F1010, F1010>>, <<F1010, F1010>>, <<UnitFlags, UnitFlags>> >>
PartDef(bd, sd, part) ==
    [model |-> "plate", a |-> bd.skin.a, b |-> IF part = "flange" THEN sd.bf ELSE sd.bb,
     m |-> IF part = "flange" THEN sd.mf ELSE sd.mb, n |-> IF part = "flange" THEN sd.nf ELSE sd.nb,
     fl |-> IF part = "flange" THEN FlangeFlags ELSE BaseFlags]
BayFext(bd, r) ==
    LET size == BaySize(bd)
        f(i) == LET sd == bd.stiffs[i]
                    nb == IF sd.kind = "t2d" THEN 3 * sd.mb * sd.nb ELSE 0
                    fl == IF OwnSize(sd) > 0
                          THEN PlaceVecSegs(Fext(PartDef(bd, sd, "flange"), r.forces[i].flange, <<>>, ROne), size,
                                            << Seg(OwnOff(bd, i) + nb, 0, 3 * sd.mf * sd.nf) >>)
                          ELSE VZero(size)
                    ba == IF sd.kind = "t2d"
                          THEN PlaceVecSegs(Fext(PartDef(bd, sd, "base"), r.forces[i].base, <<>>, ROne), size,
                                            << Seg(OwnOff(bd, i), 0, nb) >>)
                          ELSE VZero(size)
                IN VAdd(fl, ba)
    IN VAdd(PlaceVecSegs(Fext(bd.skin, r.skin, <<>>, ROne), size, SkinSegs(bd)),
            VSumFrom(f, 1, Len(bd.stiffs), VZero(size)))

(* density of a stiffener: its own if given, else the bay's *)
StiffMu(bd, sd) == IF "mu" \in DOMAIN sd THEN sd.mu ELSE bd.skin.mu
(* ---- the one internal of the 1-D stiffener that is derived: mass of a 1-D blade stiffener's flange ------------------- *)
(* A beam of cross-section bf x hf along the line y = ys whose material points sit at distance z in [z0, z0 + bf]
   (z0 = h/2, h the skin thickness) from the skin's mid-surface, on the stiffener's side, and move with the skin's
   normal: velocity (u + z w,x, v + z w,y, w).  Kinetic energy 1/2 mu hf INT dx INT dz |velocity|^2; its Hessian has
   the translational part bf, the coupling bf*df (df = z0 + bf/2, the centroid distance) and the rotary part
   I2 = INT z^2 dz = bf (z0^2 + z0 bf + bf^2/3).  Being an integral of squares it is positive semi-definite.
   KF_C13_Blade1DMassCouplingDoubled: the kernel's coupling terms carry 2 bf df, which makes the form indefinite. *)
B1dMassTerms(bf, I2, cpl) ==
    LET one == ROne
    IN << BT(T(U,0,0,one), T(U,0,0,one), bf, bf), BT(T(V,0,0,one), T(V,0,0,one), bf, bf), BT(T(W,0,0,one), T(W,0,0,one), bf, bf),
          BT(T(U,0,0,one), T(W,1,0,one), cpl, RAbs(cpl)), BT(T(W,1,0,one), T(U,0,0,one), cpl, RAbs(cpl)),
          BT(T(V,0,0,one), T(W,0,1,one), cpl, RAbs(cpl)), BT(T(W,0,1,one), T(V,0,0,one), cpl, RAbs(cpl)),
          BT(T(W,1,0,one), T(W,1,0,one), I2, I2), BT(T(W,0,1,one), T(W,0,1,one), I2, I2) >>
(* Hessian of SUM_t c_t INT_0^a (d^(a) A)(d^(b) B) dx on the line y = ys, in the series of panel description d *)
LineForm(terms, d, ys) ==
    LET eta == Eta(d, ys)
        n == Size(d)
        entry(r, c) ==
            LET da == DofOf(d, r)  i == IOf(d, r)  j == JOf(d, r)
                db == DofOf(d, c)  k == IOf(d, c)  l == JOf(d, c)
                f(t) == IF terms[t].a.dof = da /\ terms[t].b.dof = db
                        THEN LET p == PMul2(AxisFactor("int", i, terms[t].a.dx, d.fl[da][1], d.a, RZero, k, terms[t].b.dx, d.fl[db][1], d.a, RZero),
                                            AxisFactor("pt", j, terms[t].a.dy, d.fl[da][2], d.b, eta, l, terms[t].b.dy, d.fl[db][2], d.b, eta))
                             IN << RMul(RMul(terms[t].c, RDiv(d.a, Two)), p[1]), RMul(RMul(terms[t].cs, RDiv(d.a, Two)), p[2]) >>
                        ELSE PairZero
            IN << RSum(Fn([t \in 1..Len(terms) |-> f(t)[1]])), RSum(Fn([t \in 1..Len(terms) |-> f(t)[2]])) >>
    IN Fn([r \in 1..n |-> Fn([c \in 1..n |-> entry(r, c)])])
B1dFlangeMass(bd, sd, dev) ==
    LET h == Thickness(bd.skin.stack)
        hf == Thickness(sd.flam.stack)
        z0 == RAdd(RDiv(h, Two), IF sd.base THEN Thickness(sd.blam.stack) ELSE RZero)     \* beyond the padup if there is one
        df == RAdd(z0, RDiv(sd.bf, Two))
        I2 == RMul(sd.bf, RAdd(RMul(z0, z0), RAdd(RMul(z0, sd.bf), RDiv(RMul(sd.bf, sd.bf), RFromInt(3)))))
        k == IF "KF_C13_Blade1DMassCouplingDoubled" \in dev THEN Two ELSE ROne
        muhf == RMul(StiffMu(bd, sd), hf)
        sc(x) == RMul(muhf, x)
    IN LineForm(B1dMassTerms(sc(sd.bf), sc(I2), sc(RMul(k, RMul(sd.bf, df)))), bd.skin, sd.ys)

(* ---- the 2-D stiffeners, derived from the modules the panels come from ---------------------------------- *)
(* What the stiffener classes compose (bladestiff2d.py, tstiff2d.py), written with PanelOps / ConnectionOps / Bardell:
   BladeStiff2D  k0 = padup: a panel in the BAY's series (model, a, b, r, m, n, edge flags) with the padup laminate,
                      reference surface shifted by -(h/2 + hb/2) (h skin, hb padup thickness), restricted to the strip
                      y in [ys - bb/2, ys + bb/2], on the skin range
                    + flange: a flat plate a x bf, orders mf x nf, flags FlangeFlags, own laminate, on its own range
                    + skin-to-flange penalty connection = kind "BFycte" of ConnectionOps between the bay's series at
                      y = ys and the flange's edge y = 0, constants KtKr(padup if present else skin, flange, "ycte")
                 kG0 = flange only (its own Nxx, Nyy, Nxy);   kM = padup strip + flange
   TStiff2D      k0 = base: a panel a x bb with its OWN series (orders mb x nb, flags BaseFlags, model of the bay),
                      reference surface at its mid-surface, on its own range
                    + flange as above, after the base
                    + skin-to-base penalty = kind "SB" (face to face, distance dpb = h/2 + hb/2) integrated over the
                      base area only: the skin's series over the strip [ys - bb/2, ys + bb/2], the base's over its
                      whole width, the mixed block with the mapped-argument integrals (eta = c0 + c1 eta');
                      kt = min(10^7, KtKr(skin, base, "bot-top"))
                    + base-to-flange "BFycte" at the base's centre line y = bb/2 and the flange's edge y = 0
                 kG0 = base + flange (own loads);   kM = base + flange
   Every number of a 2-D stiffener is therefore derived; nothing of them stays on the placed-code-matrices route
   (which is kept as the independent check of WHERE the bay puts them).  The 1-D blade stiffener follows below.
   KF_C13_TStiffBaseStripInBayCoordinates: the T stiffener's base panel (width bb) carries y1 = ys - bb/2,
   y2 = ys + bb/2 in BAY coordinates, so its own k0 / kG0 / kM integrate its series over eta in
   [2 ys/bb - 2, 2 ys/bb] instead of [-1, 1] (outside the panel unless ys = bb/2). *)
NoLoad == <<RZero, RZero, RZero>>
SkinH(bd) == Thickness(bd.skin.stack)
HalfGap(bd, sd) == RAdd(RDiv(SkinH(bd), Two), RDiv(Thickness(sd.blam.stack), Two))       \* h/2 + hb/2
StripLo(sd) == RSub(sd.ys, RDiv(sd.bb, Two))
StripHi(sd) == RAdd(sd.ys, RDiv(sd.bb, Two))
PadPd(bd, sd) == [bd.skin EXCEPT !.stack = sd.blam.stack, !.off = RNeg(HalfGap(bd, sd)), !.y1 = StripLo(sd), !.y2 = StripHi(sd),
                                 !.mu = StiffMu(bd, sd), !.Ncte = NoLoad]
FlangePd(bd, sd) ==
    [model |-> "plate", a |-> bd.skin.a, b |-> sd.bf, r |-> RZero, sina |-> RZero, cosa |-> ROne, m |-> sd.mf, n |-> sd.nf,
     fl |-> FlangeFlags, stack |-> sd.flam.stack, off |-> RZero, y1 |-> RZero, y2 |-> sd.bf, mu |-> StiffMu(bd, sd), Ncte |-> NoLoad]
TBasePd(bd, sd, dev) ==
    LET bay == "KF_C13_TStiffBaseStripInBayCoordinates" \in dev
    IN [model |-> bd.skin.model, a |-> bd.skin.a, b |-> sd.bb, r |-> bd.skin.r, sina |-> bd.skin.sina, cosa |-> bd.skin.cosa,
        m |-> sd.mb, n |-> sd.nb, fl |-> BaseFlags, stack |-> sd.blam.stack, off |-> RZero,
        y1 |-> IF bay THEN StripLo(sd) ELSE RZero, y2 |-> IF bay THEN StripHi(sd) ELSE sd.bb,
        mu |-> StiffMu(bd, sd), Ncte |-> NoLoad]

(* INT_{-1}^{1} g_ib(t) g_js^(ds)(c0 + c1 t) dt  with the flags of both functions: value and term-magnitude scale *)
MappedPair(ib, flb, js, ds, fls, c0, c1) ==
    LET fl == RMul(Flag(ib, flb), Flag(js, fls))
        q  == PMul(D(ib, 0), PComposeLin(D(js, ds), c0, c1))
        qa == PMul(PAbs(D(ib, 0)), PComposeLin(PAbs(D(js, ds)), RAbs(c0), RAbs(c1)))
    IN << RMul(fl, PIntegrate(q, MinusOne, ROne)), RMul(RAbs(fl), RMul(Two, PEval(PAnti(qa), ROne))) >>
(* Hessian of kt/2 INT_0^a INT_{y1}^{y2} |jump|^2 for the face-to-face jump of ConnectionOps (kind "SB", distance dsb)
   between the skin series dS (amplitudes 1..Size(dS)) and the base series dB (amplitudes offB+1..), whose width
   spans exactly [y1, y2] of the skin *)
SkinBaseConn(dS, dB, y1, y2, kt, dsb, size, offB) ==
    LET js == Jumps("SB", dsb)
        e1 == Eta(dS, y1)   e2 == Eta(dS, y2)
        c0 == RDiv(RAdd(e1, e2), Two)   c1 == RDiv(RSub(e2, e1), Two)
        nS == Size(dS)   nB == Size(dB)
        area == RDiv(RMul(dS.a, dS.b), Four)
        sy(k) == RPow(RDiv(Two, dS.b), k)
        (* mapped table [base dof][base j][skin dof][skin j][skin derivative] *)
        MTab == Fn([db \in 1..3 |-> Fn([jb \in 0..(dB.n - 1) |-> Fn([ds \in 1..3 |-> Fn([jq \in 0..(dS.n - 1) |-> Fn([dd \in 0..1 |->
                 MappedPair(jb, dB.fl[db][2], jq, dd, dS.fl[ds][2], c0, c1)])])])])])
        which(r) == IF r >= 1 /\ r <= nS THEN 1 ELSE IF r > offB /\ r <= offB + nB THEN 2 ELSE 0
        loc(r) == IF which(r) = 1 THEN r ELSE r - offB
        dOf(P) == IF P = 1 THEN dS ELSE dB
        yfac(P, ja, dya, dofa, Q, jb, dyb, dofb) ==
            IF P = 1 /\ Q = 1 THEN PScale2(sy(dya + dyb), I1(ja, dya, dS.fl[dofa][2], jb, dyb, dS.fl[dofb][2], e1, e2))
            ELSE IF P = 1 /\ Q = 2 THEN PScale2(RMul(c1, sy(dya)), MTab[dofb][jb][dofa][ja][dya])
            ELSE IF P = 2 /\ Q = 1 THEN PScale2(RMul(c1, sy(dyb)), MTab[dofa][ja][dofb][jb][dyb])
            ELSE PScale2(c1, I1(ja, 0, dB.fl[dofa][2], jb, 0, dB.fl[dofb][2], MinusOne, ROne))
        entry(P, ra, Q, rb) ==
            LET dP == dOf(P)   dQ == dOf(Q)
                dofa == DofOf(dP, ra)  ia == IOf(dP, ra)  ja == JOf(dP, ra)
                dofb == DofOf(dQ, rb)  ib == IOf(dQ, rb)  jb == JOf(dQ, rb)
                pairOf(q, x, y) ==
                    LET ta == js[q].terms[x]   tb == js[q].terms[y]
                    IN IF ta.p = P /\ ta.dof = dofa /\ tb.p = Q /\ tb.dof = dofb
                       THEN PScale2(RMul(kt, RMul(area, RMul(ta.c, tb.c))),
                                    PMul2(AxisFactor("int", ia, ta.dx, dP.fl[dofa][1], dS.a, RZero, ib, tb.dx, dQ.fl[dofb][1], dS.a, RZero),
                                          yfac(P, ja, ta.dy, dofa, Q, jb, tb.dy, dofb)))
                       ELSE PairZero
                all == FlattenSeq([q \in 1..Len(js) |-> FlattenSeq([x \in 1..Len(js[q].terms) |->
                           [y \in 1..Len(js[q].terms) |-> pairOf(q, x, y)]])])
            IN << RSum(Fn([k \in 1..Len(all) |-> all[k][1]])), RSum(Fn([k \in 1..Len(all) |-> all[k][2]])) >>
    IN Fn([r \in 1..size |-> Fn([c \in 1..size |->
          IF which(r) = 0 \/ which(c) = 0 THEN PairZero ELSE entry(which(r), loc(r), which(c), loc(c))])])

BFConn(d1, d2, pos1, size, off1, off2) ==
    LET kk == KtKr(d1, d2, "ycte")
    IN ConnMatrix([kind |-> "BFycte", d1 |-> d1, d2 |-> d2, pos1 |-> pos1, pos2 |-> RZero, kt |-> kk[1], kr |-> kk[2], dsb |-> RZero],
                  size, off1, off2, {})
PartMat(d, mat, N, dev) == CASE mat = "k0" -> K0(d) [] mat = "kG0" -> KG0(d, N) [] mat = "kM" -> KM(d, dev)
(* stand-alone matrix of stiffener i (size SkinN0 + own size; skin amplitudes first).  r: [k, mat, Nf, Nb] *)
Blade2dMatrix(bd, sd, r, dev) ==
    LET n0 == SkinN0(bd)
        size == n0 + OwnSize(sd)
        dSkin == CompleteDef(bd.skin)
        pad == IF sd.base /\ r.mat # "kG0" THEN PlaceSegs(PartMat(CompleteDef(PadPd(bd, sd)), r.mat, NoLoad, dev), size, << Seg(0, 0, n0) >>)
               ELSE PZero(size)
        dF == CompleteDef(FlangePd(bd, sd))
        fla == IF sd.flange THEN PlaceSegs(PartMat(dF, r.mat, r.Nf, dev), size, << Seg(n0, 0, OwnSize(sd)) >>) ELSE PZero(size)
        con == IF sd.flange /\ r.mat = "k0"
               THEN BFConn(IF sd.base THEN CompleteDef(PadPd(bd, sd)) ELSE dSkin, dF, sd.ys, size, 0, n0)
               ELSE PZero(size)
    IN PAddM(PAddM(pad, fla), con)
TStiffMatrix(bd, sd, r, dev) ==
    LET n0 == SkinN0(bd)
        nb == 3 * sd.mb * sd.nb
        size == n0 + OwnSize(sd)
        dSkin == CompleteDef(bd.skin)
        dB == CompleteDef(TBasePd(bd, sd, dev))
        dF == CompleteDef(FlangePd(bd, sd))
        parts == PAddM(PlaceSegs(PartMat(dB, r.mat, r.Nb, dev), size, << Seg(n0, 0, nb) >>),
                       PlaceSegs(PartMat(dF, r.mat, r.Nf, dev), size, << Seg(n0 + nb, 0, OwnSize(sd) - nb) >>))
        ktpb == RMin(RFromInt(10000000), KtKr(dSkin, dB, "bot-top")[1])
    IN IF r.mat # "k0" THEN parts
       ELSE PAddM(parts, PAddM(SkinBaseConn(dSkin, dB, StripLo(sd), StripHi(sd), ktpb, HalfGap(bd, sd), size, n0),
                               BFConn(dB, dF, RDiv(sd.bb, Two), size, n0, n0 + nb)))
(* ---- the 1-D blade stiffener ---------------------------------------------------------------------------- *)
(* padup: as BladeStiff2D's (PadPd).  Flange: a laminated strip of height bf standing on the line y = ys, its
   material points at distance z in [z0, z0 + bf] from the skin's mid-surface (z0 = h/2 + hb), plane stress across
   its height (reduced stiffnesses Qr11 = Q11 - Q12^2/Q22, Qr16 = Q16 - Q12 Q26/Q22, Qr66 = Q66 - Q26^2/Q22 of each
   ply in the flange's axes), bending with the skin (axial strain u,x + z w,xx) and twisting with it (rate w,xy):
      U = 1/2 INT_0^a { A11r INT (u,x + z w,xx)^2 dz  -  4 B16r bf eps w,xy  +  4 D66r bf w,xy^2 } dx
        = 1/2 bf INT_0^a { E1 eps^2 + F1 w,xx^2 + J w,xy^2 - 2 S eps w,xy } dx ,   eps = u,x + df w,xx
   with E1 = A11r, F1 = E1 bf^2/12, J = 4 D66r, S = 2 B16r (A, B, D: integrals 1, z', z'^2 of the reduced
   stiffness through the flange thickness about its mid-plane), df = z0 + bf/2.  The form is positive semi-definite
   because [[A11r, B16r], [B16r, D66r]] is.  kG0: 1/2 Fx INT w,x^2.  kM: padup + the beam mass above.
   KF_C13_Blade1DTwistTermsNotLaminate: the class takes J = hf bf^3/12 + bf hf^3/12 (a geometric polar moment, no
   modulus) and S = -SUM y t Qr16 with y measured from the flange's first face: the form becomes indefinite when
   S^2 > E1 J. *)
RECURSIVE StripSums(_,_,_,_)
(* <<A11r, B16r, D66r, |B16r| terms, first-face moment S, |S| terms>> accumulated over the plies; y0: first face of ply k
   measured from the first face of the laminate, hf: laminate thickness *)
StripSums(stack, k, y0, hf) ==
    IF k > Len(stack) THEN <<RZero, RZero, RZero, RZero, RZero, RZero>>
    ELSE LET q == QBar(stack[k])
             t == stack[k].t
             q11 == RSub(q[1][1], RDiv(RMul(q[1][2], q[1][2]), q[2][2]))
             q16 == RSub(q[1][3], RDiv(RMul(q[1][2], q[2][3]), q[2][2]))
             (* magnitude of the terms Qr16 is made of: the ply angle reaches the code as a rounded double and the rotation
                couples every entry of Q into Q16 (LaminateOps!QBarAbs), also where Q16 vanishes exactly *)
             a16 == RMul(QBarAbs(stack[k])[1][3], RAdd(ROne, RAbs(RDiv(q[1][2], q[2][2]))))
             q66 == RSub(q[3][3], RDiv(RMul(q[2][3], q[2][3]), q[2][2]))
             y == RAdd(y0, RDiv(t, Two))                       \* ply centre from the first face
             z == RSub(y, RDiv(hf, Two))                        \* ... from the mid-plane
             rest == StripSums(stack, k + 1, RAdd(y0, t), hf)
         IN << RAdd(RMul(t, q11), rest[1]),
               RAdd(RMul(RMul(z, t), q16), rest[2]),
               RAdd(RMul(RAdd(RMul(t, RMul(z, z)), RDiv(RMul(t, RMul(t, t)), RFromInt(12))), q66), rest[3]),
               RAdd(RMul(RMul(RAbs(z), t), a16), rest[4]),
               RAdd(RNeg(RMul(RMul(y, t), q16)), rest[5]),
               RAdd(RMul(RMul(y, t), a16), rest[6]) >>
B1dStiffTerms(bf, df, E1, F1, J, S, Ss) ==
    LET one == ROne
        c(x) == RMul(bf, x)
    IN << BT(T(U,1,0,one), T(U,1,0,one), c(E1), c(E1)),
          BT(T(U,1,0,one), T(W,2,0,one), c(RMul(E1, df)), c(RMul(E1, df))), BT(T(W,2,0,one), T(U,1,0,one), c(RMul(E1, df)), c(RMul(E1, df))),
          BT(T(W,2,0,one), T(W,2,0,one), c(RAdd(RMul(E1, RMul(df, df)), F1)), c(RAdd(RMul(E1, RMul(df, df)), F1))),
          BT(T(W,1,1,one), T(W,1,1,one), c(J), c(J)),
          BT(T(U,1,0,one), T(W,1,1,one), c(RNeg(S)), c(Ss)), BT(T(W,1,1,one), T(U,1,0,one), c(RNeg(S)), c(Ss)),
          BT(T(W,2,0,one), T(W,1,1,one), c(RNeg(RMul(S, df))), c(RMul(Ss, df))), BT(T(W,1,1,one), T(W,2,0,one), c(RNeg(RMul(S, df))), c(RMul(Ss, df))) >>
B1dFlangeStiff(bd, sd, dev) ==
    LET hf == Thickness(sd.flam.stack)
        ss == StripSums(sd.flam.stack, 1, RZero, hf)
        code == "KF_C13_Blade1DTwistTermsNotLaminate" \in dev
        bf == sd.bf
        z0 == RAdd(RDiv(SkinH(bd), Two), IF sd.base THEN Thickness(sd.blam.stack) ELSE RZero)
        df == RAdd(z0, RDiv(bf, Two))
        E1 == ss[1]
        F1 == RMul(E1, RDiv(RMul(bf, bf), RFromInt(12)))
        J == IF code THEN RAdd(RDiv(RMul(hf, RMul(bf, RMul(bf, bf))), RFromInt(12)), RDiv(RMul(bf, RMul(hf, RMul(hf, hf))), RFromInt(12)))
             ELSE RMul(Four, ss[3])
        S == IF code THEN ss[5] ELSE RMul(Two, ss[2])
        Ss == IF code THEN ss[6] ELSE RMul(Two, ss[4])
    IN LineForm(B1dStiffTerms(bf, df, E1, F1, J, S, Ss), bd.skin, sd.ys)
Blade1dMatrix(bd, sd, r, dev) ==
    LET n0 == SkinN0(bd)
        pad == IF sd.base /\ r.mat # "kG0" THEN PartMat(CompleteDef(PadPd(bd, sd)), r.mat, NoLoad, dev) ELSE PZero(n0)
        fla == IF ~sd.flange THEN PZero(n0)
               ELSE CASE r.mat = "k0" -> B1dFlangeStiff(bd, sd, dev)
                      [] r.mat = "kG0" -> LineForm(<< BT(T(W,1,0,ROne), T(W,1,0,ROne), r.Nf[1], RAbs(r.Nf[1])) >>, bd.skin, sd.ys)   \* Fx = r.Nf[1]
                      [] r.mat = "kM" -> B1dFlangeMass(bd, sd, dev)
    IN PAddM(pad, fla)
StiffMatrix(bd, r, dev) ==
    LET sd == bd.stiffs[r.k]
    IN CASE sd.kind = "b1d" -> Blade1dMatrix(bd, sd, r, dev) [] sd.kind = "b2d" -> Blade2dMatrix(bd, sd, r, dev)
         [] OTHER -> TStiffMatrix(bd, sd, r, dev)

BayQuantity(bd, r, dev) ==
    CASE r.q = "size"  -> BaySize(bd)
      [] r.q = "place" -> BayPlacement(bd)
      [] r.q \in {"k0", "kG0", "kM"} -> SkinSum(bd, r, dev)
      [] r.q = "fext"  -> BayFext(bd, r)
      [] r.q = "b1dmass" -> B1dFlangeMass(bd, bd.stiffs[r.k], dev)
      [] r.q = "stiff" -> StiffMatrix(bd, r, dev)
(* Literal property: every request yields its value.
   KF_C13_Blade2DWithoutFlangeRaises: get_size dereferences the flange of every 2-D blade stiffener,
     so a bay holding one without flange (documented as optional) answers no request at all.
   KF_C20_Panel_calc_kM_model (owned by C20): the padup Panel of a 1-D blade stiffener is re-created
     without a model by every _rebuild, so calc_kM of a bay holding one raises KeyError. *)
BayOutcome(bd, r, dev) ==
    IF "KF_C13_Blade2DWithoutFlangeRaises" \in dev /\ r.q # "place"
       /\ \E i \in 1..Len(bd.stiffs) : bd.stiffs[i].kind = "b2d" /\ ~bd.stiffs[i].flange
    THEN "AttributeError"
    ELSE IF "KF_C20_Panel_calc_kM_model" \in dev /\ r.q = "kM"
            /\ \E i \in 1..Len(bd.stiffs) : bd.stiffs[i].kind = "b1d" /\ bd.stiffs[i].base
    THEN "KeyError"
    ELSE IF "KF_C20_Panel_calc_kM_model" \in dev /\ r.q = "stiff" /\ r.mat = "kM"
            /\ bd.stiffs[r.k].kind = "b1d" /\ bd.stiffs[r.k].base
    THEN "KeyError"
    ELSE "value"

(* ================================ state machine ================================= *)
NoA == [kind |-> "none"]
NoReq == [q |-> "none"]
AQuantity(d, r, dev) == IF d.kind = "asm" THEN AsmQuantity(d, r, dev) ELSE BayQuantity(d, r, dev)
AOutcome(d, r, dev) == IF d.kind = "asm" THEN AsmOutcome(d, r, dev) ELSE BayOutcome(d, r, dev)
AInit == adef = NoA /\ areq = NoReq /\ aout = <<>>
DefineAssembly(ad) == adef' = ad /\ areq' = NoReq /\ aout' = <<>>
DefineBay(bd) == adef' = bd /\ areq' = NoReq /\ aout' = <<>>
AEval(r) == /\ adef # NoA
            /\ areq' = r /\ aout' = AQuantity(adef, r, ADeviations) /\ UNCHANGED adef

(* ================================ consequences ================================== *)
IsAsm == adef.kind = "asm"
IsBay == adef.kind = "bay"
Evald == areq # NoReq
MatEvald == Evald /\ (IF IsAsm THEN IsMatQ(areq.q) ELSE areq.q \in {"k0", "kG0", "kM"})
AVals == Vals(aout)
(* own ranges: a panel's range in an assembly; in a bay the skin range and each stiffener's own range *)
OwnRanges(d) ==
    IF d.kind = "asm" THEN Fn([k \in 1..Len(d.pds) |-> <<AsmOffs(d)[k], AsmSizes(d)[k]>>])
    ELSE << <<0, SkinN0(d)>> >> \o
         SelectSeq(Fn([i \in 1..Len(d.stiffs) |-> <<OwnOff(d, i), OwnSize(d.stiffs[i])>>]), LAMBDA x : x[2] > 0)
SizeOf(d) == IF d.kind = "asm" THEN AsmSize(d) ELSE BaySize(d)
RangeSet(x) == (x[1] + 1)..(x[1] + x[2])
(* disjoint, together exactly 1..Size, and laid end to end in SOME order (contiguous) *)
RangesPartition == adef # NoA =>
    LET rs == OwnRanges(adef)
    IN /\ \A i, j \in 1..Len(rs) : i # j => RangeSet(rs[i]) \cap RangeSet(rs[j]) = {}
       /\ UNION { RangeSet(rs[i]) : i \in 1..Len(rs) } = 1..SizeOf(adef)
       /\ \A i \in 1..Len(rs) : rs[i][1] = 0 \/ \E j \in 1..Len(rs) : rs[j][1] + rs[j][2] = rs[i][1]
(* in an assembly the ranges follow the list order; in a bay 2-D blades precede T's, each in insertion order *)
RangesOrdered == adef # NoA =>
    IF IsAsm THEN \A k \in 1..(Len(adef.pds) - 1) : AsmOffs(adef)[k] + AsmSizes(adef)[k] = AsmOffs(adef)[k+1]
    ELSE \A i, j \in 1..Len(adef.stiffs) :
            (Before(adef, j, i) /\ OwnSize(adef.stiffs[i]) > 0) => OwnOff(adef, j) + OwnSize(adef.stiffs[j]) <= OwnOff(adef, i)
SizeIsSum == (Evald /\ areq.q = "size") =>
    aout = Total(Fn([k \in 1..Len(OwnRanges(adef)) |-> OwnRanges(adef)[k][2]]))
(* every component placement stays inside the global vector, its segments do not overlap *)
PlacementsInside == (Evald /\ IsBay /\ areq.q = "place") =>
    \A k \in 1..Len(aout) :
        /\ Covered(aout[k].segs) \subseteq 1..BaySize(adef)
        /\ Total(Fn([s \in 1..Len(aout[k].segs) |-> aout[k].segs[s].n])) = aout[k].size
        /\ \A s \in 1..Len(aout[k].segs) : aout[k].segs[s].l = Prefix(Fn([x \in 1..Len(aout[k].segs) |-> aout[k].segs[x].n]), s-1)
        /\ (1..SkinN0(adef)) \subseteq Covered(aout[k].segs)           \* every component couples to the skin
(* a single-segment placement is PanelOps' Place *)
PlaceAgrees == (MatEvald /\ IsAsm /\ areq.q \in {"kG0", "kM"}) =>
    \A k \in {1, Len(adef.pds)} :
        LET M == PanelMat(AsmDefs(adef)[k], k, areq, <<>>, ADeviations)
        IN PlaceSegs(M, AsmSize(adef), AsmSegs(adef, k)) = Place(M, AsmSize(adef), AsmOffs(adef)[k], AsmOffs(adef)[k])
GlobalSymmetric == MatEvald => MSym(AVals)
ScaleDominatesGlobal == MatEvald => \A i \in 1..Len(aout), j \in 1..Len(aout) : RLe(RAbs(aout[i][j][1]), aout[i][j][2])
AProbe(k, n) == Fn([i \in 1..n |-> RFromInt(((i * (k + 2) + k * k) % 7) - 3)])
NoPreload(d) == IF d.kind = "asm" THEN \A k \in 1..Len(d.pds) : d.pds[k].Ncte = <<RZero, RZero, RZero>>
                ELSE d.skin.Ncte = <<RZero, RZero, RZero>>
ProbesNonNegativeGlobal == (MatEvald /\ areq.q \in {"k0", "kM"} /\ NoPreload(adef) /\ "KF_C04_OffsetCouplingSign" \notin ADeviations) =>
    \A k \in 1..4 : RSign(Quad(AVals, AProbe(k, Len(aout)))) >= 0
(* panels that no connection joins do not couple; kG0 and kM never couple panels *)
OwnerOf(ad, r) == CHOOSE k \in 1..Len(ad.pds) : r > AsmOffs(ad)[k] /\ r <= AsmOffs(ad)[k] + AsmSizes(ad)[k]
Joined(ad, a, b) == a = b \/ \E j \in 1..Len(ad.conns) : {ad.conns[j].p1, ad.conns[j].p2} = {a, b}
OnlyJoinedBlocks == (MatEvald /\ IsAsm) =>
    \A i \in 1..Len(aout), j \in 1..Len(aout) :
        LET a == OwnerOf(adef, i)  b == OwnerOf(adef, j)
        IN (IF areq.q \in {"k0", "kT"} THEN ~Joined(adef, a, b) ELSE a # b) => aout[i][j] = PairZero
(* skin partition independence: the tiles' matrices add up to the uncut skin's, wherever the cuts are *)
SkinPartitionIndependent == (MatEvald /\ IsBay) => AVals = Vals(SkinUncut(adef, areq, ADeviations))
(* the derived beam mass is symmetric and positive semi-definite (probes, all 2x2 principal minors).  That the
   doubled coupling of KF_C13_Blade1DMassCouplingDoubled is indefinite is certified per trace by an exact negative
   quadratic form (Trace_Assembly, witness vector supplied by the observation) *)
Minor(M, r, c) == RSub(RMul(M[r][r], M[c][c]), RMul(M[r][c], M[c][r]))
BeamMassPSD == (Evald /\ IsBay /\ areq.q = "b1dmass") =>
    LET M == AVals
    IN /\ MSym(M)
       /\ \A k \in 1..4 : RSign(Quad(M, AProbe(k, Len(M)))) >= 0
       /\ \A r, c \in 1..Len(M) : RSign(Minor(M, r, c)) >= 0
(* a derived 2-D stiffener matrix is symmetric; stiffness and mass are positive semi-definite (probes) *)
StiffenerSymmetricPSD == (Evald /\ IsBay /\ areq.q = "stiff") =>
    /\ MSym(AVals)
    /\ \A i \in 1..Len(aout), j \in 1..Len(aout) : RLe(RAbs(aout[i][j][1]), aout[i][j][2])
    /\ (areq.mat \in {"k0", "kM"} /\ "KF_C04_OffsetCouplingSign" \notin ADeviations) =>
           \A k \in 1..4 : RSign(Quad(AVals, AProbe(k, Len(aout)))) >= 0
(* tangent of the assembly: symmetric, and at the undeformed state the linear stiffness incl. connections *)
AsmAtRest == (Evald /\ IsAsm /\ areq.q = "kT") =>
    LET z == Fn([k \in 1..AsmSize(adef) |-> RZero])
    IN /\ Vals(AsmMatrix(adef, [q |-> "kT", c |-> z], ADeviations)) = Vals(AsmMatrix(adef, [q |-> "k0"], ADeviations))
       /\ \A k \in 1..AsmSize(adef) : RIsZero(AsmVector(adef, [q |-> "fint", c |-> z], ADeviations)[k][1])
(* geometric stiffness from a state: the resultants come from the LINEAR strains, so the matrix is homogeneous of
   degree 1 in the state, touches out-of-plane amplitudes only and never couples panels *)
GeoStateLinear == (Evald /\ IsAsm /\ areq.q = "kGc") =>
    /\ Vals(AsmMatrix(adef, [q |-> "kGc", c |-> Fn([k \in 1..Len(areq.c) |-> RMul(Two, areq.c[k])])], ADeviations)) = MScale(Two, AVals)
    /\ \A i \in 1..Len(aout), j \in 1..Len(aout) :
          LET a == OwnerOf(adef, i)   b == OwnerOf(adef, j)
          IN (a # b \/ DofOf(AsmDefs(adef)[a], i - AsmOffs(adef)[a]) # W \/ DofOf(AsmDefs(adef)[b], j - AsmOffs(adef)[b]) # W) => aout[i][j] = PairZero
(* the connection force is K_conn c: it vanishes with the state of the joined panels and only loads them *)
FintConnLocal == (Evald /\ IsAsm /\ areq.q = "fint" /\ Len(adef.conns) > 0) =>
    LET defs == AsmDefs(adef)
        fc == PairMatVec(ConnPart(adef, defs), areq.c)
    IN \A i \in 1..Len(aout) :
          /\ (\A j \in 1..Len(adef.conns) : OwnerOf(adef, i) \notin {adef.conns[j].p1, adef.conns[j].p2}) => fc[i] = PairZero
          /\ aout[i][1] = RAdd(AsmFintPart(adef, defs, OwnerOf(adef, i), areq.c)[i][1], fc[i][1])
=============================================================================
