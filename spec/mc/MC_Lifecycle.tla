---------------------------- MODULE MC_Lifecycle ----------------------------
(* bounded model of Lifecycle: all call sequences of length <= MaxLen on     *)
(* every object kind.  Every transition is printed (EDGE) so that the        *)
(* harness can turn the explored graph into concrete call paths; KIND lines  *)
(* carry the per-kind tables (methods, attribute universe, caller arrays).   *)
EXTENDS Lifecycle
Abs(d, e) == <<{a \in DOMAIN d : d[a] = "Def"}, {a \in DOMAIN d : d[a] = "Stale"}, e>>
EmitInit == /\ Init
            /\ PrintT(<<"KIND", kind, Methods(kind), Universe(kind),
                        [m \in Methods(kind) |-> Touches(kind, m)], Abs(derived, defn), ckey>>)
EmitNext == /\ n < MaxLen
            /\ n' = n + 1
            /\ \E m \in Methods(kind) :
                 /\ Call(m)
                 /\ PrintT(<<"EDGE", kind, Abs(derived, defn), ckey, m, last'.out, last'.attr,
                             Abs(derived', defn'), ckey',
                             Explains(kind, m, AsState(last'), AllDeviations)>>)
EmitSpec == EmitInit /\ [][EmitNext]_vars
ASSUME TablesConsistent
=============================================================================
