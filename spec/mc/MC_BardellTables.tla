--------------------------- MODULE MC_BardellTables ---------------------------
(* bounded model of BardellTables: one lattice request per behaviour; every   *)
(* request is printed so that the harness can replay it into the C library.   *)
EXTENDS BardellTables
EmitNext == /\ req = None
            /\ \E r \in Requests : Ask(r) /\ PrintT(<<"REQ", r>>)
EmitSpec == Init /\ [][EmitNext]_vars
=============================================================================
