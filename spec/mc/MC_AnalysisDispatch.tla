------------------------- MODULE MC_AnalysisDispatch -------------------------
(* bounded model of AnalysisDispatch: all histories of at most MaxOps operations *)
EXTENDS AnalysisDispatch
CONSTANT MaxOps
VARIABLE nops
MC_Inc    == {RFrac(1, 20), RFrac(3, 10), RFromInt(2)}
MC_MaxInc == {RFrac(1, 10), ROne}
MC_Meth   == {"NR", "arc_length", "newton"}
MCInit == Init /\ nops = 0
MCNext == nops < MaxOps /\ Next /\ nops' = nops + 1
MCSpec == MCInit /\ [][MCNext]_<<vars, nops>>
(* vacuity: the ratchet state and a raising call are reachable *)
NeverRatcheted == ~Ratcheted
NeverRaises == outcome \notin {"NameError", "ValueError"}
=============================================================================
