----------------------------- MODULE MC_ShellLaws -----------------------------
(* Bounded models of ShellLaws (properties C16 / C17, partial):                  *)
(*  AlgSpec   Part A on integer polynomial maps of 2 (thorough: also 3)          *)
(*            variables: every single-monomial map of degree <= 4 (the identities *)
(*            are linear in the map, so they extend to every map), hashed dense   *)
(*            maps, gradients of hashed quartic energies; every (c, d) of the     *)
(*            lattice (-2..2)^dim (the identities are polynomial of degree <= 4   *)
(*            in every variable: 5 points per variable decide them).              *)
(*  ToySpec   Part B driven by an exact toy von-Karman shell: 5 amplitudes (3     *)
(*            prescribable), 3 strain components e_p = l_p.c + (w_p.c)(w_p.c0)    *)
(*            + (w_p.c)^2/2, energy SUM A_p e_p^2/2; raw kernels carry garbage    *)
(*            below the diagonal like the package's; the composition is the       *)
(*            package's (make_symmetric, k0 + k0L + k0L^T + kLL + kG,             *)
(*            fint = kernel + k0 c, partition of ShellPartition).  ToyMutant      *)
(*            # "none" makes the toy PACKAGE side deviate the way a realistic     *)
(*            regression would: TLC must then report an invariant violation       *)
(*            (negative runs of the harness self-test).                           *)
(*  EmitSpec  the lattice of studies replayed on the real ConeCyl (REQ records)   *)
(*            and the kernel-call plans the harness executes (PLAN records).      *)
EXTENDS ShellLaws
CONSTANTS Tier, ToyMutant
VARIABLES alg, tsh, script, slot
mvars == <<hist, alg, tsh, script, slot>>

I(n) == RFromInt(n)
Q(n, d) == RFrac(n, d)

-----------------------------------------------------------------------------
(* ---- algebra cases ---- *)
SeqX == INSTANCE SequencesExt
Exps(dim, deg) == { e \in [1..dim -> 0..deg] : ISumOf(e) <= deg }
(* the monomials in a fixed order (zero-arity: evaluated once) *)
ES23 == TLCEval(SeqX!SetToSeq(Exps(2, 3)))
ES24 == TLCEval(SeqX!SetToSeq(Exps(2, 4)))
ES34 == TLCEval(SeqX!SetToSeq(Exps(3, 4)))
ExpSeq(dim, deg) == IF dim = 2 THEN (IF deg = 3 THEN ES23 ELSE ES24) ELSE ES34
Term(cf, e) == <<cf>> \o e
ZeroMap(dim) == [i \in 1..dim |-> <<>>]
UnitMaps(dim, deg) == { [i \in 1..dim |-> IF i = k THEN <<Term(1, e)>> ELSE <<>>] : k \in 1..dim, e \in Exps(dim, deg) }
Hash(k, i, t) == ((k * (7*i + 3*t) + i*t + k*k) % 5) - 2
HashMap(dim, deg, k) == LET es == ExpSeq(dim, deg)
                        IN TLCEval([i \in 1..dim |-> [t \in 1..Len(es) |-> Term(Hash(k, i, t), es[t])]])
(* gradient of the hashed energy SUM_t h(k,t) x^e_t *)
GradMap(dim, deg, k) == LET es == ExpSeq(dim, deg)
                            en == TLCEval([t \in 1..Len(es) |-> Term(Hash(k, 3, t), es[t])])
                        IN TLCEval([i \in 1..dim |-> DPoly(en, i)])
NMaps == IF Tier = "quick" THEN 5 ELSE 24
Lat(dim) == Lattice(dim, -2, 2)
AlgMaps == UnitMaps(2, 4) \cup { HashMap(2, 4, k) : k \in 1..NMaps } \cup { GradMap(2, 4, k) : k \in 1..NMaps }
           \cup { HashMap(2, 3, k) : k \in 1..NMaps }
           \cup (IF Tier = "quick" THEN {} ELSE UnitMaps(3, 3) \cup { GradMap(3, 4, k) : k \in 1..4 })
Dirs(dim) == IF dim = 2 THEN { <<1, 0>>, <<0, 1>>, <<1, -2>> } ELSE { <<1, 0, 0>>, <<0, 1, 1>>, <<1, -1, 2>> }
NoCase == [m |-> <<>>, grad |-> FALSE, deg |-> 0, picked |-> FALSE, c |-> <<>>, d |-> <<>>, e |-> <<>>]
AlgInit == /\ hist = <<>> /\ tsh = <<>> /\ script = "alg" /\ slot = 0
           /\ \E m \in AlgMaps : alg = [NoCase EXCEPT !.m = m, !.grad = IsGradient(m, Lat(Len(m))), !.deg = Degree(m)]
(* single-monomial maps: the whole lattice (-2..2)^2; dense maps: the same in the thorough tier, (-1..1)^2 in the quick one;
   the third direction e is only needed by the closed-path law (cubic gradients) *)
IsUnit(m) == \A i \in 1..Len(m) : Len(m[i]) <= 1
PointsOf(m) == IF Len(m) = 3 THEN Lattice(3, -1, 1)
               ELSE IF IsUnit(m) \/ Tier # "quick" THEN Lat(2) ELSE Lattice(2, -1, 1)
AlgNext == /\ ~alg.picked
           /\ \E c \in PointsOf(alg.m), d \in PointsOf(alg.m),
                 e \in (IF alg.grad /\ alg.deg <= 3 THEN Dirs(Len(alg.m)) ELSE {Origin(Len(alg.m))}) :
                 alg' = [alg EXCEPT !.picked = TRUE, !.c = c, !.d = d, !.e = e]
           /\ UNCHANGED <<hist, tsh, script, slot>>
AlgSpec == AlgInit /\ [][AlgNext]_mvars
AlgRichardson == (alg.picked /\ alg.deg <= 4) => RichardsonExact(alg.m, alg.c, alg.d)
AlgLinearLimit == (alg.picked /\ alg.deg <= 4) => Rich12(alg.m, Origin(Len(alg.c)), alg.c) = VScale(12, LinearPartAt(alg.m, alg.c))
AlgGradientHasSymmetricJacobian == (alg.picked /\ alg.grad) => JacSymAt(alg.m, alg.c)
AlgSymmetricJacobianIffGradient ==
    (alg.m # <<>> /\ ~alg.picked) => (alg.grad <=> \A x \in Lat(Len(alg.m)) : JacSymAt(alg.m, x))
AlgClosedPathWork == (alg.picked /\ alg.grad /\ alg.deg <= 3) => LoopWork3(alg.m, alg.c, alg.d, alg.e) = 0
AlgWorkDetectsNonGradient ==
    (alg.m # <<>> /\ ~alg.picked /\ ~alg.grad /\ alg.deg <= 3) =>
        \E c \in Lattice(Len(alg.m), -1, 1), d \in Dirs(Len(alg.m)), e \in Dirs(Len(alg.m)) : LoopWork3(alg.m, c, d, e) # 0
AlgZeroAtOrigin == (alg.m # <<>>) =>
    (NoConstantTerm(alg.m) <=> \A i \in 1..Len(alg.m) :
        ISumOf([q \in 1..Len(alg.m[i]) |-> IF ISumOf(Tail(alg.m[i][q])) = 0 THEN alg.m[i][q][1] ELSE 0]) = 0)
(* the limit of the formula: it is NOT exact for degree 5 (so the cubic structure is what carries the law) *)
ASSUME ~RichardsonExact(<< <<Term(1, <<5, 0>>)>>, <<>> >>, <<1, 0>>, <<1, 0>>)
ASSUME RichardsonExact(<< <<Term(1, <<4, 0>>)>>, <<Term(1, <<2, 2>>)>> >>, <<1, -2>>, <<2, 1>>)

-----------------------------------------------------------------------------
(* ---- the toy shell ---- *)
TN == 5
TLint(v) == IF v = 1 THEN << <<1, 0, 2, 1, -1>>, <<0, 1, -1, 2, 1>>, <<2, -1, 0, 1, 3>> >>
            ELSE << <<1, 1, 0, 2, 0>>, <<0, 2, 1, -1, 1>>, <<1, 0, -1, 0, 2>> >>
TMint == << <<0, 1, 0, -1, 0>>, <<1, 0, 0, 0, 1>>, <<0, 0, 1, 1, 0>> >>          \* cone part: l_p(s) = l_p + s m_p
TWint == << <<0, 0, 1, 1, -2>>, <<0, 1, 0, 2, 1>>, <<1, 0, 0, -1, 1>> >>
TAint == <<2, 1, 3>>
RVec(v) == Fn([k \in 1..Len(v) |-> I(v[k])])
TLv(sh, p) == Fn([k \in 1..TN |-> I(TLint(sh.v)[p][k] + sh.s * TMint[p][k])])
TWv(p) == RVec(TWint[p])
Outer(a, b) == Fn([i \in 1..Len(a) |-> Fn([j \in 1..Len(b) |-> RMul(a[i], b[j])])])
RECURSIVE MSumFrom(_,_)
MSumFrom(Ms, k) == IF k = Len(Ms) THEN Ms[k] ELSE MAdd(Ms[k], MSumFrom(Ms, k+1))
MSumOf(Ms) == MSumFrom(Ms, 1)
(* what a raw kernel returns: meaningful on and above the diagonal, something else below *)
Garbage(M) == Fn([i \in 1..Len(M) |-> Fn([j \in 1..Len(M) |-> IF j >= i THEN M[i][j] ELSE I(7 + i - j)])])
TK0core(sh) == MSumOf([p \in 1..3 |-> MScale(I(TAint[p]), Outer(TLv(sh, p), TLv(sh, p)))])
TEd == << <<1, 0, 0, 1, 0>>, <<0, 0, 0, 0, 0>>, <<0, 0, 2, 0, 0>>, <<0, 0, 0, 0, 0>>, <<0, 0, 0, 0, 1>> >>
TEdges(sh) == Garbage(Fn([i \in 1..TN |-> Fn([j \in 1..TN |-> RMul(sh.ek, I(TEd[i][j]))])]))
TG(k) == CASE k = 1 -> << <<0, 0, 0, 0, 0>>, <<0, 0, 0, 0, 0>>, <<0, 0, 0, 0, 0>>, <<0, 0, 0, 2, 1>>, <<0, 0, 0, 0, 3>> >>
           [] k = 2 -> << <<0, 0, 0, 0, 0>>, <<0, 0, 0, 0, 0>>, <<0, 0, 1, 0, 0>>, <<0, 0, 0, 1, 0>>, <<0, 0, 0, 0, 1>> >>
           [] OTHER -> << <<0, 0, 0, 0, 0>>, <<0, 0, 0, 0, 1>>, <<0, 0, 0, 1, 0>>, <<0, 0, 0, 0, 2>>, <<0, 0, 0, 0, 0>> >>
TKGraw(ld) == Garbage(Fn([i \in 1..TN |-> Fn([j \in 1..TN |->
                  RAdd(RAdd(RMul(ld[1], I(TG(1)[i][j])), RMul(ld[2], I(TG(2)[i][j]))), RMul(ld[3], I(TG(3)[i][j])))])]))
TK0raw(sh) == Garbage(TK0core(sh))
TK0(sh) == IF ToyMutant = "noEdges" THEN SymUp(TK0raw(sh)) ELSE SymUp(MAdd(TK0raw(sh), TEdges(sh)))
Only(ld, k) == [j \in 1..3 |-> IF j = k THEN ld[j] ELSE RZero]
TKG0(sh, clc) ==
    LET ld == IF ToyMutant = "swapPT" THEN <<sh.loads[1], sh.loads[3], sh.loads[2]>> ELSE sh.loads
    IN IF clc = 0 THEN << SymUp(TKGraw(ld)) >>
       ELSE << SymUp(TKGraw(Only(ld, 1))), SymUp(TKGraw(IF ToyMutant = "kGPwithFc" THEN <<RZero, ld[1], RZero>> ELSE Only(ld, 2))),
               SymUp(TKGraw(Only(ld, 3))) >>
ShStamp(sh) == <<sh.v, sh.s, sh.xs, sh.cks, sh.c0, sh.ek, sh.loads, sh.fl>>
ToyD(sh) == [model |-> "toy", cyl |-> sh.s = 0, route |-> "toy"]
ToyProbes == << RVec(<<1, 0, 0, 0, 0>>), RVec(<<0, 0, 0, 1, 0>>), RVec(<<1, -1, 2, 0, 1>>), RVec(<<0, 3, -1, 1, -2>>) >>
ToyLinear(sh, clc) ==
    LET k0 == TK0(sh)   kG == TKG0(sh, clc)
    IN [op |-> "linear", d |-> ToyD(sh), stamp |-> <<ShStamp(sh), clc>>, answer |-> <<k0, kG>>,
        base |-> <<sh.v, sh.s, sh.xs>>, loads |-> sh.loads, ek |-> sh.ek, clc |-> clc,
        k0 |-> k0, kG |-> kG, k0uu |-> FreePart(k0, sh.xs), k0uk |-> SlabPart(k0, sh.xs), xs |-> sh.xs,
        kern |-> [k0 |-> TK0raw(sh), edges |-> TEdges(sh),
                  kG |-> IF clc = 0 THEN << TKGraw(sh.loads) >>
                         ELSE << TKGraw(Only(sh.loads, 1)), TKGraw(Only(sh.loads, 2)), TKGraw(Only(sh.loads, 3)) >>],
        probes |-> ToyProbes]
(* non-linear parts at the FULL amplitude vector cf *)
TWdot(p, x) == RDot(TWv(p), x)
TStrain(sh, p, cf) == RAdd(RAdd(RDot(TLv(sh, p), cf), RMul(TWdot(p, cf), TWdot(p, sh.c0))),
                           RMul(RFrac(1, 2), RMul(TWdot(p, cf), TWdot(p, cf))))
TRot(sh, p, cf) == RAdd(TWdot(p, cf), TWdot(p, sh.c0))
TK0L(sh, cf) == MSumOf([p \in 1..3 |-> MScale(RMul(I(TAint[p]), TRot(sh, p, cf)), Outer(TLv(sh, p), TWv(p)))])
TKLL(sh, cf) == MSumOf([p \in 1..3 |-> MScale(RMul(I(TAint[p]), RMul(TRot(sh, p, cf), TRot(sh, p, cf))), Outer(TWv(p), TWv(p)))])
TKGs(sh, cf) == MSumOf([p \in 1..3 |-> MScale(RMul(I(TAint[p]), TStrain(sh, p, cf)), Outer(TWv(p), TWv(p)))])
TFker(sh, cf) ==      \* SUM A_p ( e_p B_p - (l_p.c) l_p ),  B_p = l_p + rot_p w_p
    LET term(p) == LET lv == TLv(sh, p)  e == TStrain(sh, p, cf)  lc == RDot(lv, cf)  rot == TRot(sh, p, cf)
                   IN Fn([i \in 1..TN |-> RMul(I(TAint[p]), RSub(RMul(e, RAdd(lv[i], RMul(rot, TWv(p)[i]))), RMul(lc, lv[i])))])
    IN VAddR(VAddR(term(1), term(2)), term(3))
ToyNL(sh, c, inc) ==
    LET cf == FullOf(c, sh.xs, sh.cks, inc, TN)
        k0 == TK0(sh)
        k0L == IF sh.fl.k0L THEN TK0L(sh, cf) ELSE MZero(TN, TN)
        kLL == IF sh.fl.kLL THEN TKLL(sh, cf) ELSE MZero(TN, TN)
        kGs == TKGs(sh, cf)
        kL == IF ToyMutant = "dropK0LT" THEN MAdd(MAdd(k0, k0L), kLL) ELSE MAdd(MAdd(MAdd(k0, k0L), MT(k0L)), kLL)
        kT == MAdd(kL, kGs)
    IN [op |-> "nl", d |-> ToyD(sh), stamp |-> <<ShStamp(sh), c, inc>>, answer |-> <<kL, kGs>>, defn |-> ShStamp(sh),
        c |-> c, inc |-> inc, kL |-> kL, kG |-> kGs, kTuu |-> FreePart(kT, sh.xs), kTuk |-> SlabPart(kT, sh.xs),
        k0 |-> k0, xs |-> sh.xs, cks |-> sh.cks, flags |-> sh.fl, pres |-> PresOf(k0, sh.xs, sh.cks, inc),
        kern |-> [k0L |-> TK0L(sh, cf), kLL |-> Garbage(TKLL(sh, cf)), kG |-> Garbage(kGs)]]
ToyFint(sh, c, inc, ru) ==
    LET cf == FullOf(c, sh.xs, sh.cks, inc, TN)
        k0 == TK0(sh)
        fk == TFker(sh, cf)
        full == IF ToyMutant = "fintNoK0c" THEN fk ELSE VAddR(fk, MVec(k0, cf))
        f == IF ru THEN FreeVec(full, sh.xs) ELSE full
    IN [op |-> "fint", d |-> ToyD(sh), stamp |-> <<ShStamp(sh), c, inc, ru>>, answer |-> f, defn |-> ShStamp(sh),
        c |-> c, cfull |-> cf, inc |-> inc, ru |-> ru, f |-> f, xs |-> sh.xs, cks |-> sh.cks, size |-> TN, k0 |-> k0, kern |-> fk,
        undeformed |-> IsZeroVec(cf)]

(* ---- scripted studies over the toy ---- *)
TXs == { <<2>>, <<1, 2>>, <<0, 2>>, <<0, 1, 2>> }
TCk(xs, nz) == [k \in 1..Len(xs) |-> IF nz THEN Q(xs[k] + 1, 2) ELSE RZero]
TFlags == { [k0L |-> TRUE, kLL |-> TRUE], [k0L |-> FALSE, kLL |-> TRUE], [k0L |-> TRUE, kLL |-> FALSE] }
TLoadsA == <<I(2), I(-1), I(3)>>
TLoadsB == <<I(1), Q(1, 2), I(-2)>>
TShells == { [v |-> v, s |-> s, xs |-> xs, cks |-> TCk(xs, nz), c0 |-> c0, ek |-> ek, loads |-> TLoadsA, fl |-> fl] :
               v \in (IF Tier = "quick" THEN {1} ELSE {1, 2}), s \in {0, 1}, xs \in TXs, nz \in BOOLEAN,
               c0 \in { ZeroVec(TN), RVec(<<0, 0, 0, 1, -1>>) }, ek \in { I(4) }, fl \in TFlags }
FreeN(sh) == TN - Len(sh.xs)
TState(sh) == Fn([k \in 1..FreeN(sh) |-> Q(2*k - 3, 2)])
TDir(sh) == Fn([k \in 1..FreeN(sh) |-> I(IF k % 2 = 0 THEN -1 ELSE 2)])
TPoint(sh, k) == VAddR(TState(sh), VScaleR(I(k), TDir(sh)))
TIncs == { ROne, Q(1, 2) }
ToyInit == /\ hist = <<>> /\ alg = NoCase /\ slot = 1
           /\ script \in {"nl", "loads", "edges"}
           /\ tsh \in TShells
(* script "nl": linear, tangent at c, forces at c+d, c-d, c+2d, c-2d, full force at c+d, force of the undeformed shell *)
NlStep(inc) ==
    CASE slot = 1 -> \E clc \in {0, 1} : CalcLinear(ToyLinear(tsh, clc), FALSE)
      [] slot = 2 -> CalcNL(ToyNL(tsh, TState(tsh), inc), FALSE)
      [] slot = 3 -> CalcFint(ToyFint(tsh, TPoint(tsh, 1), inc, TRUE), FALSE)
      [] slot = 4 -> CalcFint(ToyFint(tsh, TPoint(tsh, -1), inc, TRUE), FALSE)
      [] slot = 5 -> CalcFint(ToyFint(tsh, TPoint(tsh, 2), inc, TRUE), FALSE)
      [] slot = 6 -> CalcFint(ToyFint(tsh, TPoint(tsh, -2), inc, TRUE), FALSE)
      [] slot = 7 -> CalcFint(ToyFint(tsh, TPoint(tsh, 1), inc, FALSE), FALSE)
      [] slot = 8 -> CalcFint(ToyFint([tsh EXCEPT !.cks = TCk(tsh.xs, FALSE)], ZeroVec(FreeN(tsh)), inc, TRUE), FALSE)
      [] slot = 9 -> CalcNL(ToyNL(tsh, TState(tsh), inc), FALSE)               \* asked again: same answer
      [] OTHER -> FALSE
WithLoads(ld) == [tsh EXCEPT !.loads = ld]
LoadsStep ==
    CASE slot = 1 -> CalcLinear(ToyLinear(WithLoads(TLoadsA), 0), FALSE)
      [] slot = 2 -> CalcLinear(ToyLinear(WithLoads(TLoadsB), 0), FALSE)
      [] slot = 3 -> CalcLinear(ToyLinear(WithLoads([j \in 1..3 |-> RAdd(TLoadsA[j], TLoadsB[j])]), 0), FALSE)
      [] slot = 4 -> CalcLinear(ToyLinear(WithLoads([j \in 1..3 |-> RMul(I(2), TLoadsA[j])]), 0), FALSE)
      [] slot = 5 -> CalcLinear(ToyLinear(WithLoads(TLoadsA), 1), FALSE)
      [] OTHER -> FALSE
EdgesStep ==
    CASE slot = 1 -> CalcLinear(ToyLinear([tsh EXCEPT !.ek = RZero], 0), FALSE)
      [] slot = 2 -> CalcLinear(ToyLinear([tsh EXCEPT !.ek = I(4)], 0), FALSE)
      [] slot = 3 -> CalcLinear(ToyLinear([tsh EXCEPT !.ek = I(8)], 0), FALSE)
      [] slot = 4 -> KernelCall([op |-> "kernel", d |-> ToyD(tsh), stamp |-> <<tsh.v, "k0", "cyl">>, args |-> <<tsh.v, "k0">>, answer |-> 0, fn |-> "cyl",
                                 K |-> Garbage(TK0core([tsh EXCEPT !.s = 0]))], FALSE)
      [] slot = 5 -> KernelCall([op |-> "kernel", d |-> ToyD(tsh), stamp |-> <<tsh.v, "k0", "cone0">>, args |-> <<tsh.v, "k0">>, answer |-> 0, fn |-> "cone0",
                                 K |-> TK0raw([tsh EXCEPT !.s = 0])], FALSE)
      [] OTHER -> FALSE
ToyNext == /\ slot' = slot + 1
           /\ CASE script = "nl" -> \E inc \in (IF slot = 2 THEN TIncs ELSE {IF Len(hist) >= 2 THEN hist[2].inc ELSE ROne}) : NlStep(inc)
                [] script = "loads" -> LoadsStep
                [] OTHER -> EdgesStep
           /\ UNCHANGED <<alg, tsh, script>>
ToySpec == ToyInit /\ [][ToyNext]_mvars

(* relational C16 laws found in the history by their stamps *)
Lin == ObsOf("linear")
LoadSum(a, b) == [j \in 1..3 |-> RAdd(a[j], b[j])]
InvLoadsLinear ==
    \A a, b, ab \in Lin :
        (hist[a].clc = 0 /\ hist[b].clc = 0 /\ hist[ab].clc = 0 /\ hist[a].base = hist[b].base /\ hist[a].base = hist[ab].base
         /\ hist[a].ek = hist[b].ek /\ hist[a].ek = hist[ab].ek /\ hist[ab].loads = LoadSum(hist[a].loads, hist[b].loads))
        => CombBad(<<hist[ab].kG[1], hist[a].kG[1], hist[b].kG[1]>>, <<ROne, I(-1), I(-1)>>, TolComb) = {}
InvSplit ==
    \A a, b \in Lin :
        (hist[a].clc = 0 /\ hist[b].clc # 0 /\ hist[a].base = hist[b].base /\ hist[a].loads = hist[b].loads)
        => CombBad(<<hist[a].kG[1], hist[b].kG[1], hist[b].kG[2], hist[b].kG[3]>>, <<ROne, I(-1), I(-1), I(-1)>>, TolComb) = {}
InvEdgeAffine ==
    \A a, b, c \in Lin :
        (hist[a].base = hist[b].base /\ hist[a].base = hist[c].base /\ hist[a].loads = hist[b].loads /\ hist[a].loads = hist[c].loads
         /\ RSub(hist[c].ek, hist[b].ek) = RSub(hist[b].ek, hist[a].ek) /\ hist[a].ek # hist[b].ek)
        => CombBad(<<hist[c].k0, hist[b].k0, hist[a].k0>>, <<ROne, I(-2), ROne>>, TolComb) = {}
InvCylCone == \A a, b \in ObsOf("kernel") :
                 (hist[a].fn = "cyl" /\ hist[b].fn = "cone0" /\ hist[a].args = hist[b].args)
                 => AgreeBad(SymUp(hist[a].K), SymUp(hist[b].K), TolAgree) = {}
(* vacuity guard: the stencils the Jacobian invariant quantifies over do occur *)
StencilSeen == (script = "nl" /\ slot > 6 /\ Len(hist) >= 6) => StencilsOf(2) # {}

-----------------------------------------------------------------------------
(* ---- the lattice of studies for the real package ---- *)
NLM == IF Tier = "quick"
       THEN {"clpt_donnell_bc1", "clpt_donnell_bc2", "clpt_donnell_bc3", "clpt_donnell_bc4", "clpt_sanders_bc1", "clpt_sanders_bc2",
             "clpt_sanders_bc4", "iso_clpt_donnell_bc2", "fsdt_donnell_bc1", "fsdt_donnell_bcn"}
       ELSE NLModels
LinM == Models
Angles == IF Tier = "quick" THEN {0, 30} ELSE {0, 10, 20, 30, 45, 60}
NLAngles == IF Tier = "quick" THEN {0, 20} ELSE {0, 10, 20, 45}
Lams == IF Tier = "quick" THEN {"unsym"} ELSE {"unsym", "sym", "cross"}
Orders == IF Tier = "quick" THEN { <<2, 2, 2>> } ELSE { <<2, 2, 2>>, <<3, 2, 3>>, <<1, 3, 2>> }
Pres == { [pdC |-> FALSE, pdT |-> TRUE, nz |-> FALSE], [pdC |-> FALSE, pdT |-> FALSE, nz |-> TRUE],
          [pdC |-> TRUE, pdT |-> TRUE, nz |-> TRUE] }
Rules == {"trapz2d", "simps2d"}
Studies ==
    { [study |-> "linear", model |-> m, alpha |-> a, lam |-> l, ord |-> o, clc |-> c] :
        m \in LinM, a \in Angles, l \in Lams, o \in Orders, c \in (IF Tier = "quick" THEN {0, 2} ELSE {0, 1, 2, 3}) }
    \cup { [study |-> "cylcone", model |-> m, lam |-> l, ord |-> o] : m \in LinM \ IsoModels, l \in Lams, o \in Orders }
    \cup { [study |-> "iso", model |-> m, alpha |-> a, ord |-> o] : m \in IsoModels, a \in Angles, o \in { <<2, 2, 2>>, <<3, 2, 3>> } }
    \cup { [study |-> "loads", model |-> m, alpha |-> a, ord |-> o] : m \in LinM, a \in Angles, o \in { <<2, 2, 2>> } }
    \cup { [study |-> "edges", model |-> m, alpha |-> a, ord |-> o] : m \in LinM, a \in Angles, o \in { <<2, 2, 2>> } }
    \cup { [study |-> "nl", model |-> m, alpha |-> a, lam |-> l, ord |-> o, pre |-> p, rule |-> r, imp |-> i] :
             m \in NLM, a \in NLAngles, l \in Lams, o \in Orders, p \in Pres, r \in Rules, i \in BOOLEAN }
PlanKeys == { [model |-> m, cyl |-> cy, clc |-> c, freuse |-> fr, hasstack |-> hs] :
                m \in Models, cy \in BOOLEAN, c \in {0, 1}, fr \in BOOLEAN, hs \in BOOLEAN }
EmitInit == hist = <<>> /\ alg = NoCase /\ tsh = <<>> /\ script = "emit" /\ slot = 0
EmitNext == /\ slot = 0 /\ slot' = 1
            /\ \A s \in Studies : PrintT(<<"REQ", s>>)
            /\ \A k \in PlanKeys : PrintT(<<"PLAN", k, LinearPlan(k.model, k.cyl, k.clc, k.freuse, k.hasstack)>>)
            /\ \A m \in NLModels : PrintT(<<"NLPLAN", m, NLPlan(m)>>)
            /\ UNCHANGED <<hist, alg, tsh, script>>
EmitSpec == EmitInit /\ [][EmitNext]_mvars
=============================================================================
