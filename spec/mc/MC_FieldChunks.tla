---------------------------- MODULE MC_FieldChunks ----------------------------
(* bounded model: all sizes S <= MaxS and core counts P <= MaxP *)
EXTENDS FieldChunks
=============================================================================
