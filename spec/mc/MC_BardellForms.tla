---------------------------- MODULE MC_BardellForms ----------------------------
(* Bardell's published formula and the Legendre construction define the same  *)
(* polynomials (all indices below NFun).                                      *)
EXTENDS Bardell
ASSUME BardellFormsAgree
ASSUME \A i \in 4..(NFun-1) : D(i, 2) = Leg(i-2)
=============================================================================
