----------------------------- MODULE MC_PanelEquiv -----------------------------
(* bounded model for C14: definitions on which the equivalence laws are checked;  *)
(* every <<definition, request>> is printed so that the harness can replay both    *)
(* members of each pair.                                                          *)
EXTENDS PanelEquiv, PanelLattice
CONSTANTS Tier
Ivs == { <<RZero, ROne>>, <<R(1,4), R(3,4)>> }
EqDefs ==
    { PD(mo, R(2,1), R(3,2), IF mo = "cpanel" THEN R(4,1) ELSE RZero, RZero, ROne, mn[1], mn[2], fl, lam,
         iv[1], iv[2], R(3,1), Zero3) :
        mo \in {"plate", "plate_w", "cpanel"}, mn \in (IF Tier = "quick" THEN {<<3,2>>} ELSE {<<3,2>>, <<2,4>>, <<4,4>>}),
        fl \in (IF Tier = "quick" THEN {FlPrimes} ELSE {FlPrimes, FlMixed, FlSS}),
        lam \in {LamGen}, iv \in (IF Tier = "quick" THEN { <<RZero, ROne>> } ELSE Ivs) }
NoPlace == [size |-> 0, row0 |-> 0, col0 |-> 0]
EqRequests(pd) ==
    { [q |-> "k0"] @@ NoPlace, [q |-> "kM"] @@ NoPlace, [q |-> "kG0", N |-> <<R(-3,1), R(2,1), R(1,1)>>] @@ NoPlace }
VARIABLE phase
EmitInit == PInit /\ phase = 0
EmitNext ==
    \/ /\ phase = 0 /\ phase' = 1 /\ \E pd \in EqDefs : Define(pd)
    \/ /\ phase = 1 /\ phase' = 2
       /\ \E pd \in EqDefs : def = CompleteDef(pd) /\ \E r \in EqRequests(pd) : Eval(r) /\ PrintT(<<"REQ", pd, r>>)
EmitSpec == EmitInit /\ [][EmitNext]_<<pvars, phase>>
=============================================================================
