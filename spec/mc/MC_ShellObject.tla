----------------------------- MODULE MC_ShellObject -----------------------------
(* bounded model of ShellObject: every history  [one query or none] ; [one change  *)
(* or none] ; [final query]  on a small lattice of objects.  The final query is     *)
(* answered by the mirror (with the deviations in Dev) and by the fresh identical   *)
(* object; TLC checks that they agree except in the signature states of enabled     *)
(* deviations, i.e. that the named deviations are the ONLY ways in which an answer  *)
(* depends on the object's history.  Every history is printed for replay.           *)
EXTENDS ShellObject
Q(n, d) == RFrac(n, d)
Cyl == [s |-> RZero, c |-> ROne]
Cone == [s |-> Q(3,5), c |-> Q(4,5)]
Arr == <<I(2), Q(1,2), I(-3)>>
Force1 == [x |-> RZero, thetadeg |-> I(90), F |-> <<I(2), I(-3), I(5)>>]
BaseObj(b) ==
    LET s1 == [StFresh EXCEPT !.o.m1 = 1, !.o.m2 = 1, !.o.n2 = 1, !.o.thetaTdeg = I(30), !.o.forces = <<Force1>>,
                              !.o.Pinc = I(3), !.o.model = b.model, !.o.ang = b.ang, !.o.pdT = b.pdT, !.o.T = I(5)]
        s2 == IF b.geo = "r2L" THEN SetAttr(SetAttr(s1, "r2", I(4)), "L", Q(5,2))
              ELSE SetAttr(SetAttr(s1, "r1", RAdd(I(4), RMul(Q(5,2), b.ang.s))), "H", RMul(Q(5,2), b.ang.c))
        s3 == IF b.axial = "Fc" THEN SetAttr(SetAttr(s2, "Fc", I(100)), "xiLA", Q(1,8))
              ELSE IF b.axial = "array" THEN SetAttr(s2, "Nxxtop", Arr)
              ELSE IF b.axial = "scalar" THEN SetAttr(s2, "NxxtopScalar", Q(3,4)) ELSE s2
    IN s3
Bases == IF Tier = "quick"
         THEN { [model |-> "clpt_donnell_bc1", ang |-> Cone, pdT |-> TRUE, geo |-> "r2L", axial |-> "Fc"],
                [model |-> "clpt_donnell_bc3", ang |-> Cyl, pdT |-> FALSE, geo |-> "r1H", axial |-> "array"],
                [model |-> "clpt_donnell_bc2", ang |-> Cone, pdT |-> TRUE, geo |-> "r1H", axial |-> "none"] }
         ELSE { b \in [model : {"clpt_donnell_bc1", "clpt_donnell_bc2", "clpt_donnell_bc3", "fsdt_donnell_bc1"}, ang : {Cyl, Cone},
                        pdT : BOOLEAN, geo : {"r2L", "r1H"}, axial : {"Fc", "array", "scalar", "none"}] :
                    /\ b.pdT = (b.geo = "r2L")
                    /\ b.axial \in (IF b.ang = Cone THEN {"Fc", "array"} ELSE {"scalar", "none"}) }
Set(a, v) == [op |-> "set", attr |-> a, val |-> v]
Queries == { [op |-> "calc_fext", inc |-> Q(1,2)], [op |-> "static"], [op |-> "rebuild"], [op |-> "calc_k0"],
             [op |-> "get_size"], [op |-> "lb"] }
Changes(b) ==
    { Set("Fc", I(200)), Set("xiLA", Q(1,4)), Set("Nxxtop", <<I(1), I(1), I(4)>>), Set("P", I(2)), Set("T", I(9)),
      Set("Tinc", I(1)), Set("uTM", Q(1,8)), Set("thetaTdeg", I(60)), Set("tanBeta", Q(3,4)), Set("pdC", TRUE),
      Set("pdT", ~b.pdT), Set("stiff", 1), Set("plyt", 1), Set("plyts", 2),
      Set("model", IF b.model = "clpt_donnell_bc1" THEN "clpt_donnell_bc4" ELSE "clpt_donnell_bc1"),
      Set("m1", 2), Set("n2", 2), Set("ang", IF b.ang = Cyl THEN Cone ELSE Cyl),
      Set(IF b.geo = "r2L" THEN "L" ELSE "H", I(2)), Set(IF b.geo = "r2L" THEN "r2" ELSE "r1", I(6)),
      [op |-> "add_force", x |-> RZero, thetadeg |-> I(360), F |-> <<I(-15), I(0), I(1)>>, increment |-> TRUE],
      [op |-> "add_SPL", PL |-> I(10), pt |-> Q(1,2), thetadeg |-> I(180), increment |-> FALSE],
      [op |-> "clear"], [op |-> "SPLA", PLs |-> <<I(7), I(3)>>] }
None3 == [op |-> "none"]

VARIABLES base, st, stage, hist, ans, ref
ovars == <<base, st, stage, hist, ans, ref, obj, phase, nreb, given, shell, loads, kukm, out, lastInc>>
Inherited == <<obj, phase, nreb, given, shell, loads, kukm, out, lastInc>>
KukAbsKey(key) ==
    LET salt == 100*key.stiff + 300*(IF IsNone(key.plyts) THEN 0 ELSE Val(key.plyts)) + (IF RIsZero(key.ang.s) THEN 0 ELSE 1000)
                + 37*key.sh.m1 + (IF key.sh.model = "clpt_donnell_bc1" THEN 0 ELSE 5)
                + 3*BToInt(Val(key.L)[1]) + 7*BToInt(Val(key.r2)[1])
    IN [a \in 1..40 |-> <<I(10*a + 1 + salt), RFrac(-(10*a + 2 + salt), 3), I(10*a + 3 + 2*salt)>>]
OInit == /\ LInit /\ base \in Bases /\ st = BaseObj(base) /\ stage = 0 /\ hist = <<>> /\ ans = <<>> /\ ref = <<>>
Warm == /\ stage = 0 /\ stage' = 1
        /\ \E q \in Queries \cup {None3} :
              /\ hist' = <<q>>
              /\ st' = Advance(st, q, Dev)
        /\ UNCHANGED <<base, ans, ref, Inherited>>
Change == /\ stage = 1 /\ stage' = 2
          /\ \E c \in Changes(base) \cup {None3} :
                /\ hist' = Append(hist, c)
                /\ st' = Advance(st, c, Dev)
          /\ UNCHANGED <<base, ans, ref, Inherited>>
Final == /\ stage = 2 /\ stage' = 3
         /\ \E q \in Queries :
               /\ hist' = Append(hist, q)
               /\ ans' = AnsValues(Ans(st, q, Dev, KukAbsKey))
               /\ ref' = AnsValues(Ans(FreshOf(st), q, {}, KukAbsKey))
               /\ st' = IF ans'[1] \in {"raise", "offgrid", "unspecified"} THEN st ELSE Advance(st, q, Dev)
         /\ UNCHANGED <<base, Inherited>>
ONext == Warm \/ Change \/ Final
OSpec == OInit /\ [][ONext]_ovars

(* the property, split by the signatures of the enabled deviations *)
HistoryIndependent ==
    stage = 3 => (ans = ref \/ Sigs(st) \cap Dev # {} \/ (KF_SPLA \in Dev /\ hist[2].op = "SPLA"))
(* bookkeeping of the load lists *)
ForcesBookkeeping ==
    stage >= 2 =>
      LET c == hist[2]
      IN /\ c.op = "add_force" => /\ Len(st.o.forcesInc) = 1 /\ st.o.forcesInc[1] = [x |-> c.x, thetadeg |-> c.thetadeg, F |-> c.F]
                                  /\ st.o.forces = <<Force1>>
         /\ (c.op = "add_SPL" /\ CanRebuild(BaseObj(base), Dev)) =>
                /\ Len(st.o.forces) = 2 /\ st.o.forcesInc = <<>>
                /\ st.o.forces[2].F = <<RZero, RZero, RNeg(c.PL)>>
                /\ (Sigs(st) \cap {KF_Geo} = {} => st.o.forces[2].x = RMul(c.pt, Val(RebuildGeo(st.u.geo, st.o.ang).L)))
         /\ (c.op = "SPLA" /\ KF_SPLA \notin Dev /\ CanRebuild(BaseObj(base), Dev)) =>
                /\ Len(st.o.forces) = 1 /\ st.o.forcesInc = <<>>                                           \* replaced, not accumulated
                /\ IF ~IsNone(st.o.outs)                                                                   \* ran to the end
                   THEN /\ st.o.forces[1].F = <<RZero, RZero, RNeg(c.PLs[Len(c.PLs)])>>
                        /\ Len(Val(st.o.outs)) = Len(c.PLs)
                        /\ \A k \in 1..Len(c.PLs) : Val(st.o.outs)[k].forces[1].F = <<RZero, RZero, RNeg(c.PLs[k])>>
                   ELSE st.o.forces[1].F = <<RZero, RZero, RNeg(c.PLs[1])>>
SizeFormula == Size(ShellOf(st.o)) = SizeOfFamily(st.o.model, st.o.m1, st.o.m2, st.o.n2)

Req == [base |-> base, hist |-> hist, sigs |-> Sigs(st) \cap Dev, same |-> ans = ref, akind |-> ans[1]]
EmitNext == Warm \/ Change \/ (Final /\ PrintT(<<"REQ", [base |-> base, hist |-> hist', sigs |-> Sigs(st') \cap Dev,
                                                          same |-> ans' = ref', akind |-> ans'[1], rkind |-> ref'[1]]>>))
EmitSpec == OInit /\ [][EmitNext]_ovars
=============================================================================
