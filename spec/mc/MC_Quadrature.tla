----------------------------- MODULE MC_Quadrature -----------------------------
EXTENDS Quadrature
MCGrids ==
    { [xmin |-> x[1], xmax |-> x[2], nx |-> n[1], ymin |-> y[1], ymax |-> y[2], ny |-> n[2]] :
        x \in { <<R(0,1), R(2,1)>>, <<R(-1,2), R(3,4)>> },
        y \in { <<R(0,1), R(3,2)>>, <<R(1,8), R(5,8)>> },
        n \in { <<2,2>>, <<3,2>>, <<4,5>>, <<7,3>>, <<6,6>> } }
EmitNext == /\ ask.rule = "none"
            /\ \E rule \in {"trapz", "simps"}, g \in MCGrids : QAsk(rule, g) /\ PrintT(<<"REQ", rule, g>>)
EmitSpec == QInit /\ [][EmitNext]_qvars
=============================================================================
