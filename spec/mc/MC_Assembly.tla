------------------------------ MODULE MC_Assembly ------------------------------
(* Bounded model of Assembly: assemblies of 1..4 unequal panels (different series  *)
(* orders, laminates, flags, flat and cylindrical) in both orders with 0..2         *)
(* connections; bays whose skin is cut at 0..4 arbitrary (also non-central, non-     *)
(* dyadic) positions; bays with 0..2 stiffeners of each kind in several insertion    *)
(* orders.  Every description and request is printed for replay into the real code.  *)
EXTENDS Assembly, PanelLattice
CONSTANTS Tier, Part      \* Part: "asm" | "bay" | "nl" | "all" -- which slice of the lattice this run enumerates

Pn(model, a, b, r, m, n, fl, lam, mu) == PD(model, a, b, r, RZero, ROne, m, n, fl, lam, RZero, ROne, mu, Zero3)
A_ == R(2,1)
A1 == Pn("plate",  A_, R(3,2), RZero,  3, 2, FlPrimes, LamGen, R(3,1))      \* 18 amplitudes
A2 == Pn("plate",  A_, R(1,1), RZero,  2, 2, FlMixed,  LamSym, R(2,1))      \* 12
A3 == Pn("cpanel", A_, R(3,2), R(4,1), 2, 3, FlFree,   LamIso, R(1,1))      \* 18, curved, same plan as A1
A4 == Pn("plate",  A_, R(1,2), RZero,  1, 1, FlFree,   LamSym, R(5,2))      \* 3
A5 == Pn("plate",  A_, R(3,2), RZero,  3, 3, FlSS,     LamSym, R(1,1))      \* 27
A6 == Pn("plate",  A_, R(1,1), RZero,  1, 3, FlFree,   LamGen, R(1,1))      \* 9

CN(pds, kind, p1, p2, f1, f2) ==
    [kind |-> kind, p1 |-> p1, p2 |-> p2,
     pos1 |-> RMul(f1, IF kind \in {"SSxcte", "BFxcte"} THEN pds[p1].a ELSE pds[p1].b),
     pos2 |-> RMul(f2, IF kind \in {"SSxcte", "BFxcte"} THEN pds[p2].a ELSE pds[p2].b)]
Asm(pds, cs) == [kind |-> "asm", pds |-> pds,
                 conns |-> Fn([j \in 1..Len(cs) |-> CN(pds, cs[j][1], cs[j][2], cs[j][3], cs[j][4], cs[j][5])])]
QuickAsms ==
    { Asm(<<A1>>, <<>>),
      Asm(<<A1, A2>>, << <<"SSycte", 1, 2, ROne, RZero>> >>),
      Asm(<<A2, A1>>, << <<"SSycte", 2, 1, ROne, RZero>> >>),                        \* p1 after p2
      Asm(<<A4, A1, A3>>, << <<"BFycte", 2, 3, R(1,2), RZero>>, <<"SSycte", 3, 1, ROne, RZero>> >>),
      Asm(<<A3, A4, A2, A1>>, << <<"SB", 4, 1, RZero, RZero>>, <<"SSxcte", 1, 4, ROne, RZero>> >>),
      Asm(<<A4, A5, A2>>, << <<"SSycte", 2, 3, ROne, RZero>> >>) }                    \* offset-free laminates
ThoroughAsms ==
    QuickAsms \cup
    { Asm(<<A1, A3>>, <<>>), Asm(<<A3, A1>>, << <<"SB", 1, 2, RZero, RZero>> >>),
      Asm(<<A2, A6, A4>>, << <<"SSycte", 1, 2, R(1,4), R(3,4)>>, <<"SSycte", 3, 2, ROne, RZero>> >>),
      Asm(<<A6, A2, A4>>, << <<"SSycte", 2, 1, R(1,4), R(3,4)>>, <<"BFycte", 1, 3, R(1,2), RZero>> >>),
      Asm(<<A5, A1>>, << <<"SSxcte", 1, 2, R(1,4), R(3,4)>> >>), Asm(<<A1, A5>>, << <<"SSxcte", 2, 1, ROne, RZero>> >>),
      Asm(<<A1, A2, A3, A4>>, << <<"SSycte", 1, 2, ROne, RZero>>, <<"SSycte", 3, 4, ROne, RZero>> >>),
      Asm(<<A4, A3, A2, A1>>, << <<"SSycte", 4, 3, ROne, RZero>>, <<"BFycte", 2, 1, RZero, RZero>> >>),
      Asm(<<A2, A2, A4, A4>>, << <<"SSycte", 1, 2, ROne, RZero>> >>),
      Asm(<<A4, A2, A6, A4, A2>>, << <<"SSycte", 2, 3, ROne, RZero>>, <<"BFycte", 5, 1, R(1,2), RZero>> >>),
      Asm(<<A6, A4, A1, A4, A2, A3>>, << <<"SB", 3, 6, RZero, RZero>>, <<"SSycte", 5, 1, ROne, RZero>> >>) }
Asms == IF Tier = "quick" THEN QuickAsms ELSE ThoroughAsms

(* loads, forces and states as fixed functions of the position in the list *)
NOfPanel(k) == << R(-3 + k, 1), R(2 * k - 3, 2), R(k, 4) >>
ForcesOf(pd, k) == << <<RMul(R(1,2), pd.a), RMul(R(1, k + 1), pd.b), R(k,1), R(-2,1), R(3,1)>>,
                      <<pd.a, RMul(R(1,4), pd.b), R(5,2), RZero, R(-k,1)>> >>
ForcesIncOf(pd, k) == << <<RMul(R(1,4), pd.a), pd.b, RZero, R(1,2), R(7,1)>>, <<RMul(R(3,4), pd.a), RMul(R(1, k + 2), pd.b), R(-k,1), R(1,1), RZero>> >>
(* load pattern of panel k under shift s: constant forces only / incrementable only / unloaded / both -- side by side *)
Pattern(k, s) == (k + s) % 4
ConstOf(pd, k, s) == IF Pattern(k, s) \in {0, 3} THEN ForcesOf(pd, k) ELSE <<>>
IncOf(pd, k, s) == IF Pattern(k, s) \in {1, 3} THEN ForcesIncOf(pd, k) ELSE <<>>
AsmReqs(ad) ==
    { [q |-> "size"], [q |-> "k0"], [q |-> "kM"],
      [q |-> "kG0", N |-> Fn([k \in 1..Len(ad.pds) |-> NOfPanel(k)])] }
    \cup { [q |-> "fext", forces |-> Fn([k \in 1..Len(ad.pds) |-> ConstOf(ad.pds[k], k, s)]),
            forcesInc |-> Fn([k \in 1..Len(ad.pds) |-> IncOf(ad.pds[k], k, s)]), inc |-> inc] : s \in 0..3, inc \in {R(3,8), RZero, R(7,4)} }

(* non-linear cases: small orders, all amplitudes active *)
B1 == Pn("plate",  A_, R(3,2), RZero,  2, 2, FlPrimes, LamGen, R(1,1))      \* 12
B2 == Pn("plate",  A_, R(1,1), RZero,  1, 2, FlFree,   LamSym, R(1,1))      \* 6
B3 == Pn("cpanel", A_, R(1,1), R(4,1), 2, 1, FlFree,   LamGen, R(1,1))      \* 6
NLAsms == IF Tier = "quick"
          THEN { Asm(<<B2, B1>>, << <<"SSycte", 2, 1, ROne, RZero>> >>) }
          ELSE { Asm(<<B2, B1>>, << <<"SSycte", 2, 1, ROne, RZero>> >>),
                 Asm(<<B1, B3, B2>>, << <<"BFycte", 1, 2, R(1,2), RZero>>, <<"SSycte", 2, 3, ROne, RZero>> >>) }
NLState(n) == Fn([k \in 1..n |-> R(((k * 5 + 2) % 9) - 4, 16)])
NLReqs(ad) == { [q |-> qq, c |-> NLState(AsmSize(ad))] : qq \in {"fint", "kT", "kGc"} }

(* ---- bays ------------------------------------------------------------------------ *)
SkF == PD("plate",  A_, R(3,2), RZero,  RZero, ROne, 3, 3, FlPrimes, LamSym, RZero, ROne, R(3,1), Zero3)
SkG == PD("plate",  A_, R(3,2), RZero,  RZero, ROne, 2, 3, FlMixed,  LamGen, RZero, ROne, R(3,1), Zero3)   \* laminate offset
SkC == PD("cpanel", A_, R(3,2), R(4,1), RZero, ROne, 2, 3, FlPrimes, LamSym, RZero, ROne, R(2,1), Zero3)
SkS == PD("plate",  A_, R(3,2), RZero,  RZero, ROne, 3, 2, FlPrimes, LamSym, RZero, ROne, R(3,1), Zero3)   \* 18, under stiffeners
SkSc == PD("cpanel", A_, R(3,2), R(4,1), RZero, ROne, 2, 3, FlFree,  LamSym, RZero, ROne, R(3,1), Zero3)
Bay(skin, cuts, stiffs) == [kind |-> "bay", skin |-> skin, cuts |-> cuts, stiffs |-> stiffs]
Cuts0 == <<>>
Cuts1 == << R(1,2) >>                                   \* non-central (b = 3/2)
Cuts1t == << R(1,3) >>                                  \* not a dyadic number
Cuts2 == << R(3,8), R(1,1) >>
Cuts3 == << R(1,4), R(5,7), R(11,8) >>
Cuts4 == << R(1,8), R(1,2), R(3,4), R(11,8) >>
QuickSkinBays == { Bay(SkF, Cuts0, <<>>), Bay(SkF, Cuts1, <<>>), Bay(SkF, Cuts2, <<>>),
                   Bay(SkC, Cuts1t, <<>>), Bay(SkC, Cuts4, <<>>), Bay(SkG, Cuts3, <<>>) }
ThoroughSkinBays == QuickSkinBays \cup
    { Bay(sk, cu, <<>>) : sk \in {SkF, SkC, SkG}, cu \in {Cuts0, Cuts1, Cuts1t, Cuts2, Cuts3, Cuts4} }
SkinBays == IF Tier = "quick" THEN QuickSkinBays ELSE ThoroughSkinBays
BayN == << R(-3,1), R(2,1), R(1,1) >>
SkinForces(sk) == << <<RMul(R(1,2), sk.a), RMul(R(1,3), sk.b), R(1,1), R(-2,1), R(3,1)>>,
                     <<sk.a, RMul(R(7,8), sk.b), R(5,2), RZero, R(-1,1)>>, <<RMul(R(1,4), sk.a), RZero, RZero, R(1,2), R(7,1)>> >>
SkinReqs(bd) == { [q |-> "size"], [q |-> "k0"], [q |-> "kM"], [q |-> "kG0", N |-> BayN],
                  [q |-> "fext", skin |-> SkinForces(bd.skin), forces |-> <<>>] }

(* stiffeners: laminates of base / flange are used by the replay only *)
SD(kind, ys, base, flange, mb, nb, mf, nf) ==
    [kind |-> kind, ys |-> ys, base |-> base, flange |-> flange, bb |-> R(1,4), bf |-> R(3,8),
     mb |-> mb, nb |-> nb, mf |-> mf, nf |-> nf, blam |-> LamSym, flam |-> LamIso, mu |-> R(5,4)]
Y1 == R(1,2)
Y2 == R(1,1)
B1f  == SD("b1d", Y1, FALSE, TRUE, 0, 0, 0, 0)
B1bf == SD("b1d", Y2, TRUE, TRUE, 0, 0, 0, 0)
B1b  == SD("b1d", Y1, TRUE, FALSE, 0, 0, 0, 0)            \* padup only (bf still has to be given to the class)
B1a  == [SD("b1d", Y2, TRUE, TRUE, 0, 0, 0, 0) EXCEPT !.flam = LamGen, !.bb = R(1,2)]      \* angle-ply flange, wide padup
B2f  == SD("b2d", Y1, FALSE, TRUE, 0, 0, 2, 1)           \* flange 6
B2bf == SD("b2d", Y2, TRUE, TRUE, 0, 0, 2, 2)            \* flange 12
B2b  == SD("b2d", Y1, TRUE, FALSE, 0, 0, 0, 0)            \* padup only (see KF_C13_Blade2DWithoutFlangeRaises)
T2a  == SD("t2d", Y1, TRUE, TRUE, 1, 1, 2, 1)             \* base 3 + flange 6
T2b  == SD("t2d", Y2, TRUE, TRUE, 1, 2, 2, 2)             \* base 6 + flange 12
CutsS == << R(1,2), R(1,1) >>
QuickStiffBays ==
    { Bay(SkS, CutsS, <<B2f, B2bf>>), Bay(SkS, CutsS, <<B2bf, B2f>>),
      Bay(SkS, CutsS, <<T2a, B2f, B1f, T2b>>), Bay(SkS, CutsS, <<B1bf, B1f>>),
      Bay(SkS, CutsS, <<T2b, T2a>>), Bay(SkS, CutsS, <<T2a, T2b>>),
      Bay(SkSc, CutsS, <<B2bf, T2a, B2f, T2b, B1f, B1bf>>),
      Bay(SkSc, CutsS, <<T2a, B1f, B2f>>),
      Bay(SkS, CutsS, <<B2f, B2b>>), Bay(SkS, CutsS, <<B1b, B1a>>), Bay(SkSc, CutsS, <<B1a, B1b, B1f>>) }
ThoroughStiffBays == QuickStiffBays \cup
    { Bay(sk, CutsS, <<x, y, z>>) : sk \in {SkS, SkSc}, x \in {B1f, B2f, T2a}, y \in {B2bf, T2b, B1bf}, z \in {B2f, T2a, B1f} }
    \cup { Bay(SkS, CutsS, <<T2b, B2bf, T2a, B1bf, B2f, B1f>>), Bay(SkS, CutsS, <<B1f, T2a, B2f, T2b, B2bf>>) }
StiffBays == IF Tier = "quick" THEN QuickStiffBays ELSE ThoroughStiffBays
PartForces(sd, part, i) ==
    LET w == IF part = "flange" THEN sd.bf ELSE sd.bb
    IN << <<RMul(R(1,2), A_), RMul(R(i, i + 1), w), R(i,1), R(-2,1), R(3,1)>>, <<RMul(R(3,4), A_), w, RZero, R(1,2), R(-i,1)>> >>
StiffReqs(bd) ==
    { [q |-> "size"], [q |-> "place"] }
    \cup { [q |-> "stiff", k |-> i, mat |-> mt, Nf |-> << R(-2 - i, 1), R(1,4), R(1,2) >>, Nb |-> << R(-1 - i, 1), RZero, R(1,8) >>] :
              i \in 1..Len(bd.stiffs), mt \in {"k0", "kG0", "kM"} }
    \cup { [q |-> "b1dmass", k |-> i] : i \in { j \in 1..Len(bd.stiffs) : bd.stiffs[j].kind = "b1d" /\ ~bd.stiffs[j].base } }
    \cup {
      [q |-> "fext", skin |-> SkinForces(bd.skin), forces |-> Fn([i \in 1..Len(bd.stiffs) |->
            [base |-> IF bd.stiffs[i].kind = "t2d" THEN PartForces(bd.stiffs[i], "base", i) ELSE <<>>,
             flange |-> IF OwnSize(bd.stiffs[i]) > 0 THEN PartForces(bd.stiffs[i], "flange", i + 2) ELSE <<>>]])] }

Defs == (IF Part \in {"asm", "all"} THEN Asms ELSE {}) \cup (IF Part \in {"nl", "all"} THEN NLAsms ELSE {})
        \cup (IF Part \in {"bay", "all"} THEN SkinBays \cup StiffBays ELSE {})
ReqsOf(d) == IF d \in NLAsms THEN NLReqs(d)
             ELSE IF d.kind = "asm" THEN AsmReqs(d)
             ELSE IF d.stiffs = <<>> THEN SkinReqs(d) ELSE StiffReqs(d)

VARIABLE phase
EmitInit == AInit /\ phase = 0
EmitNext ==
    \/ /\ phase = 0 /\ phase' = 1
       /\ \E d \in Defs : (IF d.kind = "asm" THEN DefineAssembly(d) ELSE DefineBay(d)) /\ PrintT(<<"DEF", d>>)
    \/ /\ phase = 1 /\ phase' = 2
       /\ \E r \in ReqsOf(adef) : AEval(r) /\ PrintT(<<"REQ", adef, r>>)
EmitSpec == EmitInit /\ [][EmitNext]_<<avars, phase>>
(* listing only: the same behaviours without evaluating anything (used to start the replay early) *)
ListNext ==
    \/ /\ phase = 0 /\ phase' = 1
       /\ \E d \in Defs : (IF d.kind = "asm" THEN DefineAssembly(d) ELSE DefineBay(d))
    \/ /\ phase = 1 /\ phase' = 2
       /\ \E r \in ReqsOf(adef) : areq' = r /\ aout' = <<>> /\ UNCHANGED adef /\ PrintT(<<"REQ", adef, r>>)
ListSpec == EmitInit /\ [][ListNext]_<<avars, phase>>
=============================================================================
