----------------------------- MODULE MC_ShellLoads -----------------------------
(* bounded model of ShellLoads: lattice of shells (model, series, cylinder and   *)
(* Pythagorean cones) x load cases x load factors.  Loads are additive, which    *)
(* the module checks (Superposition), so the lattice is the union of             *)
(*   A  point forces x pressures          (default axial / torsion data)        *)
(*   B  axial x torsion x load asymmetry  (without and with forces + pressure)   *)
(* Every CalcFext transition is printed for replay on a real ConeCyl.            *)
EXTENDS ShellLoads
Q(n, d) == RFrac(n, d)
F3(a, b, c) == <<I(a), I(b), I(c)>>
ForceOpts == << [forces |-> <<>>, forcesInc |-> <<>>],
                [forces |-> <<[F |-> F3(2,-3,5), p |-> 1, q |-> 0]>>, forcesInc |-> <<>>],
                [forces |-> <<>>, forcesInc |-> <<[F |-> F3(1,4,-2), p |-> 1, q |-> 1]>>],
                [forces |-> <<[F |-> F3(0,0,-10), p |-> 1, q |-> 1], [F |-> F3(3,1,2), p |-> 2, q |-> 3]>>,
                 forcesInc |-> <<[F |-> F3(-15,0,0), p |-> 0, q |-> 2], [F |-> F3(-15,2,0), p |-> 0, q |-> 0]>>] >>
PressOpts == << <<RZero, RZero>>, <<I(2), RZero>>, <<RZero, I(3)>>, <<I(-1), Q(1,2)>> >>
ArrayN(n2) == SubSeq(<<I(2), Q(1,2), I(-3), I(7), Q(-1,4), I(1), I(5)>>, 1, 2*n2 + 1)
AxialOpts(n2) ==
    << [Fc |-> NoneV, nxxIn |-> NoneV, xiLA |-> NoneV, pdC |-> FALSE, uTM |-> RZero],
       [Fc |-> NoneV, nxxIn |-> Some([kind |-> "scalar", v |-> Q(3,4)]), xiLA |-> NoneV, pdC |-> FALSE, uTM |-> RZero],
       [Fc |-> Some(I(1000)), nxxIn |-> NoneV, xiLA |-> NoneV, pdC |-> FALSE, uTM |-> Q(1,4)],
       [Fc |-> NoneV, nxxIn |-> NoneV, xiLA |-> NoneV, pdC |-> TRUE, uTM |-> Q(1,8)],
       [Fc |-> NoneV, nxxIn |-> Some([kind |-> "array", v |-> ArrayN(n2)]), xiLA |-> NoneV, pdC |-> FALSE, uTM |-> RZero],
       [Fc |-> Some(I(-600)), nxxIn |-> NoneV, xiLA |-> Some(Q(1,8)), pdC |-> FALSE, uTM |-> RZero] >>
TorsOpts == << [pdT |-> TRUE, thetaTdeg |-> RZero, T |-> RZero, Tinc |-> RZero],
               [pdT |-> TRUE, thetaTdeg |-> I(30), T |-> I(9), Tinc |-> RZero],
               [pdT |-> FALSE, thetaTdeg |-> I(30), T |-> I(5), Tinc |-> RZero],
               [pdT |-> FALSE, thetaTdeg |-> RZero, T |-> RZero, Tinc |-> I(7)],
               [pdT |-> FALSE, thetaTdeg |-> RZero, T |-> I(-2), Tinc |-> I(1)] >>
BetaOpts == << RZero, Q(3,4) >>
IncsL == IF Tier = "quick" THEN {ROne, Q(1,2), I(2)} ELSE {RZero, ROne, Q(1,2), Q(-3,4)}

QuickShells == { [model |-> m, m1 |-> 3, m2 |-> 1, n2 |-> 1] :
                    m \in {"clpt_donnell_bc1", "clpt_donnell_bc2", "clpt_donnell_bc3", "clpt_donnell_bc4", "fsdt_donnell_bc1"} }
               \cup { [model |-> m, m1 |-> 2, m2 |-> 2, n2 |-> 2] : m \in {"fsdt_donnell_bc4"} }
FullShells == { [model |-> m, m1 |-> 3, m2 |-> 1, n2 |-> 1] : m \in ModelNames }
              \cup { [model |-> m, m1 |-> 2, m2 |-> 2, n2 |-> 2] :
                       m \in {"clpt_donnell_bc2", "clpt_donnell_bc4", "clpt_sanders_bc2", "clpt_sanders_bc3",
                              "iso_clpt_donnell_bc2", "fsdt_donnell_bc4"} }
              \cup { [model |-> m, m1 |-> 4, m2 |-> 2, n2 |-> 3] : m \in {"clpt_donnell_bc1", "clpt_sanders_bc4"} }
ShellsL == IF Tier = "quick" THEN QuickShells ELSE FullShells
GeosL == { <<I(4), Q(5,2)>> }                  \* other lengths: seeded direction-B cases of the harness
AnglesL == IF Tier = "quick" THEN { [s |-> RZero, c |-> ROne], [s |-> Q(3,5), c |-> Q(4,5)] } ELSE Angles

Combo == { <<1,1>> } \cup ({2,3,4} \X {1,2,3,4}) \cup ({1} \X {2,3,4})     \* sub-lattice A: (force option, pressure option)
ABT == (1..6) \X (IF Tier = "quick" THEN {1, 2, 3, 5} ELSE 1..5) \X (1..2)       \* sub-lattice B: axial x torsion x beta
MkCase(sh, g, a, fo, po, ao, to, bo) ==
    LET ax == AxialOpts(sh.n2)[ao]
        tr == TorsOpts[to]
        pr == IF IsFsdt(sh.model) THEN PressOpts[1] ELSE PressOpts[po]           \* fsdt + pressure raises NotImplementedError
    IN [sh |-> sh, r2 |-> g[1], L |-> g[2], ang |-> a, Fc |-> ax.Fc, nxxIn |-> ax.nxxIn, xiLA |-> ax.xiLA,
        pdC |-> ax.pdC, uTM |-> ax.uTM, pdT |-> tr.pdT, thetaTdeg |-> tr.thetaTdeg, tanBeta |-> BetaOpts[bo],
        ld |-> [forces |-> ForceOpts[fo].forces, forcesInc |-> ForceOpts[fo].forcesInc, P |-> pr[1], Pinc |-> pr[2],
                T |-> tr.T, Tinc |-> tr.Tinc]]
Cases == { MkCase(sh, g, a, c[1], c[2], 1, 1, 1) : sh \in ShellsL, g \in GeosL, a \in AnglesL, c \in Combo }
         \cup { MkCase(sh, g, a, fp[1], fp[2], t[1], t[2], t[3]) :
                  sh \in ShellsL, g \in GeosL, a \in AnglesL, t \in ABT,
                  fp \in IF Tier = "quick" THEN {<<2,2>>} ELSE {<<4,4>>} }

Req(inc) == [sh |-> shell, geo |-> obj.geo, ang |-> obj.ang, Fc |-> obj.Fc, nxxIn |-> obj.nxxIn, xiLA |-> obj.xiLA,
             pdC |-> obj.pdC, pdT |-> obj.pdT, uTM |-> obj.uTM, thetaTdeg |-> obj.thetaTdeg, tanBeta |-> obj.tanBeta,
             ld |-> loads, inc |-> inc, pre |-> nreb]
EmitNext == \/ \E c \in Cases : DefineLoads(c)
            \/ \E inc \in IncsL : CalcFext(inc) /\ (phase # "defined" \/ PrintT(<<"REQ", Req(inc)>>))
            \/ LRebuild
EmitSpec == LInit /\ [][EmitNext]_lvars
LayoutOK == LayoutBijective(shell)
=============================================================================
