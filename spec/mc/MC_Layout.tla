------------------------------ MODULE MC_Layout ------------------------------
(* Bounded model of Layout: the package's builders, as drawn in their docstrings, for *)
(* rings of 2..MaxN panels (with and without blades) and T-stiffened panels over a    *)
(* small lattice of dimensions; built one panel / connection at a time.               *)
EXTENDS Layout
CONSTANTS MaxN
VARIABLE plan

R(n, d) == RFrac(n, d)
Widths == { R(1, 2), R(3, 1) }
Plans == { [ps |-> RingPanels(n, w, R(2, 1)), P |-> RMul(RFromInt(n), w), cs |-> RingConns(n, w)] : n \in 2..MaxN, w \in Widths }
         \cup { [ps |-> RingBladePanels(n, w, R(2, 1), [i \in 1..n |-> R(i, 4)]), P |-> RMul(RFromInt(n), w), cs |-> RingBladeConns(n, w)] :
                n \in 2..MaxN, w \in Widths }
         \cup { LET ps == TPanels(al, R(1, 4), R(1, 2), br, R(1, 8), R(3, 4), R(1, 16))
                IN [ps |-> ps, P |-> RZero, cs |-> TConns(ps)] : al \in {R(1, 2), R(1, 4)}, br \in {R(1, 2), R(5, 8)} }
MInit == YInit /\ plan \in Plans
MNext == \/ (Len(panels) < Len(plan.ps) /\ AddPanel(plan.ps[Len(panels) + 1]) /\ UNCHANGED plan)
         \/ (Len(panels) = Len(plan.ps) /\ conns = <<>> /\ perim # plan.P /\ Close(plan.P) /\ UNCHANGED plan)
         \/ (Len(panels) = Len(plan.ps) /\ perim = plan.P /\ Len(conns) < Len(plan.cs) /\ AddConn(plan.cs[Len(conns) + 1]) /\ UNCHANGED plan)
         \/ (Len(panels) = Len(plan.ps) /\ perim = plan.P /\ Len(conns) = Len(plan.cs) /\ Finish /\ UNCHANGED plan)
MSpec == MInit /\ [][MNext]_<<yvars, plan>>
(* unfinished layouts are incomplete: the laws are not satisfied by accident before the last connection *)
NotEarly == (~done /\ Len(panels) = Len(plan.ps) /\ Len(conns) < Len(plan.cs)) => ~LayoutOK(panels, plan.P, conns)
=============================================================================
