------------------------------ MODULE MC_Interp ------------------------------
(* every request with 2 data points on abscissae -3..5, ordinates {-3, 0, 5}, periods {-4, 0, 3, 5}: *)
(* ties, points outside the base period, negative periods and the refused period 0 are all inside.   *)
EXTENDS Interp
MCXs == -3..5
MCFv == {-3, 0, 5}
MCPeriods == {-4, 0, 3, 5}
=============================================================================
