------------------------ MODULE MC_IntegratePartition ------------------------
(* bounded model: all npts <= MaxN, thread counts P <= MaxP, all thread orders *)
EXTENDS IntegratePartition
=============================================================================
