------------------------------ MODULE MC_Laminate ------------------------------
(* Bounded models of Laminate.                                                  *)
(*  - LatSpec : the lattice of definitions (no transformations), every          *)
(*              definition printed for replay;                                  *)
(*  - BehSpec : behaviours (a definition followed by up to Depth                *)
(*              transformations) with a history variable, every maximal or      *)
(*              intermediate path printed for replay;                           *)
(*  - Spec    : the plain state graph, on which the laws are checked.           *)
EXTENDS Laminate
CONSTANTS Depth
VARIABLE hist

LDirs == { <<0,1>>, <<1,0>>, <<1,1>>, <<-1,1>>, <<1,2>>, <<-1,3>>, <<2,1>>, <<-3,4>>, <<5,2>> }
LThicks == { R(1,8), R(1,4), R(3,8) }
Iso == << R(7,1), R(7,1), R(1,4) >>
Ortho6 == << R(10,1), R(2,1), R(1,4), R(1,1), R(1,1), R(1,2) >>
Ortho9 == << R(20,1), R(1,1), R(3,10), R(2,1), R(2,1), R(1,1), R(1,1), R(1,5), R(1,5) >>
LMats == { Iso, Ortho6, Ortho9 }
LOffsets == { RZero, R(1,8), R(-3,1), R(1,2) }
QDirs == { <<0,1>>, <<1,0>>, <<1,1>>, <<-1,1>>, <<1,2>>, <<-1,3>> }
QThicks == { R(1,8), R(1,4) }
QOffsets == { RZero, R(1,8), R(-3,1) }
BDirs == { <<0,1>>, <<1,1>>, <<1,2>> }
BThicks == { R(1,8), R(1,4) }
BMats == { Iso, Ortho6 }
BOffsets == { RZero, R(1,8) }

Def == [ev |-> "define", stack |-> stack, offset |-> offset]
LatInit == Init /\ hist = <<>> /\ PrintT(<<"DEF", Def>>)
LatNext == FALSE /\ UNCHANGED <<vars, hist>>
LatSpec == LatInit /\ [][LatNext]_<<vars, hist>>

GraphSpec == (Init /\ hist = <<>>) /\ [][Next /\ UNCHANGED hist]_<<vars, hist>>

BehInit == Init /\ hist = <<Def>>
Log(e) == hist' = Append(hist, e) /\ PrintT(<<"BEH", hist'>>)
BehNext == /\ Len(hist) <= Depth
           /\ \/ Mirror /\ Log([ev |-> "mirror"])
              \/ Rotate90 /\ Log([ev |-> "rot90"])
              \/ Symmetrize /\ Log([ev |-> "symmetrize"])
              \/ \E i, j \in 1..Len(stack) : i < j /\ Swap(i, j) /\ Log([ev |-> "swap", i |-> i, j |-> j])
              \/ \E d \in Offsets : d # offset /\ Shift(d) /\ Log([ev |-> "shift", d |-> d])
BehSpec == BehInit /\ [][BehNext]_<<vars, hist>>
=============================================================================
