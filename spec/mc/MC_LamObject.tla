----------------------------- MODULE MC_LamObject -----------------------------
(* Bounded model of LamObject: every sequence of up to Depth method calls on a   *)
(* small alphabet of stacks; the laws are checked on the state graph and every   *)
(* behaviour is printed for replay into a real Laminate object.                  *)
EXTENDS LamObject
CONSTANTS Depth
VARIABLE hist

MDirs == { <<0,1>>, <<1,1>>, <<-1,2>> }
MDirsT == { <<0,1>>, <<1,0>>, <<1,1>>, <<-1,2>>, <<3,1>> }
MThicks == { R(1,8), R(1,4) }
MIso == << R(7,1), R(7,1), R(1,4) >>
MOrtho6 == << R(10,1), R(2,1), R(1,4), R(1,1), R(1,1), R(1,2) >>
MOrtho9 == << R(20,1), R(1,1), R(3,10), R(2,1), R(2,1), R(1,1), R(3,1), R(1,5), R(1,10) >>
MMats == { MOrtho6, MOrtho9 }
MMatsT == { MIso, MOrtho6, MOrtho9 }
MOffsets == { RZero, R(1,8) }

Log(e) == hist' = Append(hist, e) /\ PrintT(<<"BEH", hist'>>)
BInit == LInit /\ hist = <<>>
BNext == /\ Len(hist) <= Depth
         /\ \/ \E s \in LStacks, d \in LOffsets : Len(hist) = 0 /\ ReadStack(s, d) /\ Log([ev |-> "read_stack", stack |-> s, offset |-> d])
            \/ \E s \in LStacks : Len(hist) = 0 /\ SingleMat(s) /\ ReadLP(LPOf(s, RZero)) /\ Log([ev |-> "read_lp", lp |-> LPOf(s, RZero)])
            \/ Recalc /\ last # "recalc" /\ last # "read_stack" /\ Log([ev |-> "recalc"])
            \/ ForceBalancedLP /\ last # "force_balanced_lp" /\ Log([ev |-> "force_balanced_lp"])
            \/ ForceSymmetricLP /\ last # "force_symmetric_lp" /\ Log([ev |-> "force_symmetric_lp"])
            \/ ForceOrthotropic /\ last # "force_orthotropic" /\ Log([ev |-> "force_orthotropic"])
            \/ ForceSymmetric /\ last # "force_symmetric" /\ Log([ev |-> "force_symmetric"])
            \/ EquivModulus /\ last # "equivalent_modulus" /\ Log([ev |-> "equivalent_modulus"])
            \/ (src = "stack" /\ SingleMat(stk) /\ last # "calc_lp" /\ CalcLP /\ Log([ev |-> "calc_lp"]))
BSpec == BInit /\ [][BNext]_<<lvars, hist>>
(* the state graph for the laws: objects are built once (a second read_stack gives the states of the first) *)
GNext == \/ \E s \in LStacks, d \in LOffsets : src = "none" /\ ReadStack(s, d)
         \/ \E s \in LStacks : src = "none" /\ SingleMat(s) /\ ReadLP(LPOf(s, RZero))
         \/ Recalc \/ ForceBalancedLP \/ ForceSymmetricLP \/ ForceOrthotropic \/ ForceSymmetric \/ EquivModulus
         \/ (src = "stack" /\ SingleMat(stk) /\ CalcLP)
GSpec == (LInit /\ hist = <<>>) /\ [][GNext /\ UNCHANGED hist]_<<lvars, hist>>
=============================================================================
