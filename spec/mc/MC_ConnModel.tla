------------------------------ MODULE MC_ConnModel ------------------------------
(* Bounded model of ConnModel: all five connection kinds, unequal panels, interior *)
(* interface positions, both orders of the panels in the global vector, explicit    *)
(* and laminate-derived penalty constants.  Printed for replay.                     *)
EXTENDS ConnModel, PanelLattice
CONSTANTS Tier

Pn(model, a, b, r, m, n, fl, lam) == PD(model, a, b, r, RZero, ROne, m, n, fl, lam, RZero, ROne, R(1,1), Zero3)
A_ == R(2,1)
P1q == Pn("plate", A_, R(3,2), RZero, 3, 3, FlPrimes, LamGen)
P2q == Pn("plate", A_, R(1,1), RZero, 3, 2, FlMixed, LamSym)            \* same a (common edge along x), different b, orders, laminate
P1f == Pn("plate", A_, R(3,2), RZero, 3, 3, FlFree, LamSym)
P2f == Pn("plate", A_, R(1,1), RZero, 3, 3, FlFree, LamGen)
P1x == Pn("plate", R(3,2), A_, RZero, 3, 3, FlPrimes, LamGen)           \* common edge along y: same b
P2x == Pn("plate", R(1,1), A_, RZero, 2, 3, FlMixed, LamSym)
P1xf == Pn("plate", R(3,2), A_, RZero, 3, 3, FlFree, LamSym)
P2xf == Pn("plate", R(1,1), A_, RZero, 3, 3, FlFree, LamGen)
Cy1 == Pn("cpanel", A_, R(3,2), R(4,1), 3, 3, FlPrimes, LamGen)
Sk1 == Pn("plate", A_, R(3,2), RZero, 3, 3, FlPrimes, LamGen)            \* face to face: same plan dimensions
Sk2 == Pn("plate", A_, R(3,2), RZero, 2, 3, FlMixed, LamSym)
Sk1f == Pn("plate", A_, R(3,2), RZero, 3, 3, FlFree, LamGen)
Sk2f == Pn("plate", A_, R(3,2), RZero, 3, 3, FlFree, LamSym)

CD(kind, pd1, pd2, f1, f2, auto, first, pad) ==
    [kind |-> kind, pd1 |-> pd1, pd2 |-> pd2,
     pos1 |-> RMul(f1, IF kind \in {"SSxcte", "BFxcte"} THEN pd1.a ELSE pd1.b),
     pos2 |-> RMul(f2, IF kind \in {"SSxcte", "BFxcte"} THEN pd2.a ELSE pd2.b),
     kt |-> R(7,2), kr |-> R(3,4), auto |-> auto, first |-> first, pad |-> pad]
Pos == { <<ROne, RZero>>, <<R(1,2), RZero>>, <<R(1,4), R(3,4)>> }       \* edge-edge, interior-edge, interior-interior
QuickConns ==
    { CD(k, pp[1], pp[2], ps[1], ps[2], au, fi, 0) :
        k \in {"SSycte", "BFycte"}, pp \in { <<P1q, P2q>>, <<P1f, P2f>> }, ps \in Pos, au \in {FALSE}, fi \in {1, 2} }
    \cup { CD(k, pp[1], pp[2], ps[1], ps[2], au, fi, 0) :
        k \in {"SSxcte", "BFxcte"}, pp \in { <<P1x, P2x>>, <<P1xf, P2xf>> }, ps \in {<<ROne, RZero>>, <<R(1,4), R(3,4)>>}, au \in {FALSE}, fi \in {1, 2} }
    \cup { CD("SB", pp[1], pp[2], RZero, RZero, FALSE, fi, 0) : pp \in { <<Sk1, Sk2>>, <<Sk1f, Sk2f>> }, fi \in {1, 2} }
    \cup { CD("SSycte", Cy1, P2q, ROne, RZero, TRUE, 1, 3), CD("SSxcte", P1x, P2x, ROne, RZero, TRUE, 1, 0),
           CD("SB", Sk1, Sk2, RZero, RZero, TRUE, 1, 0), CD("BFycte", P1q, P2q, R(1,2), RZero, TRUE, 1, 3),
           CD("SSycte", P1q, P2q, ROne, RZero, TRUE, 2, 0), CD("BFxcte", P1x, P2x, R(1,4), RZero, TRUE, 2, 3),
           CD("SB", Sk1, Sk2, RZero, RZero, TRUE, 2, 0) }
Conns == QuickConns

VARIABLE phase
EmitInit == CInit /\ phase = 0
EmitNext == \/ phase = 0 /\ phase' = 1 /\ \E cd \in Conns : CDefine(cd) /\ PrintT(<<"CONN", cd>>)
            \/ phase = 1 /\ phase' = 2 /\ CEval
EmitSpec == EmitInit /\ [][EmitNext]_<<cvars, phase>>
=============================================================================
