----------------------------- MODULE MC_SparseOps -----------------------------
(* every 3x3 matrix over {-1, 0, 2} (19 683 matrices) x 4 operations; the cases are    *)
(* replayed on compmech.sparse by the harness from the same enumeration rule.          *)
EXTENDS SparseOps
MCEntries == {-1, 0, 2}
=============================================================================
