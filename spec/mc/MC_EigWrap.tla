------------------------------ MODULE MC_EigWrap ------------------------------
(* Bounded model of EigWrap: a lattice of abstract problems x call options; every    *)
(* (problem, options) pair is printed once (REQ) so that the harness can realise it  *)
(* as real matrices and call the real wrappers.                                      *)
(* Family  "lb" | "freq";  DevMode "literal" (all deviations off: the wrapper the    *)
(* property describes) | "code" (all listed deviations on: today's code);            *)
(* Tier    "quick" | "thorough".                                                     *)
EXTENDS EigWrap
CONSTANTS Family, DevMode, Tier

Dev == IF DevMode = "literal" THEN {} ELSE DevNames
Thorough == Tier = "thorough"

(* --- multiplier alphabets (ascending).  lb: mu (lambda = -1/mu), no value +-1 and no pair with product 1
       under the scales 1, 2, 1/2 (that would tie in |nu|).  freq: omega given, mu = 1/omega^2;
       1 and 26/25 (51/50) share a rounding bucket of the 0.1 rad/s sort. ------------------------- *)
LbAlpha == IF Thorough
           THEN <<Q(-5,2), Q(-9,4), Q(-4,5), Q(-3,5), Q(-1,3), Q(-1,6), Q(1,4), Q(3,2), Q(3,1)>>
           ELSE <<Q(-9,4), Q(-3,5), Q(-1,3), Q(-1,6), Q(1,4), Q(3,1)>>
Om == IF Thorough
      THEN <<Q(4,1), Q(7,2), Q(3,1), Q(5,2), Q(2,1), Q(3,2), Q(26,25), Q(51,50), Q(1,1), Q(1,2)>>
      ELSE <<Q(3,1), Q(5,2), Q(2,1), Q(3,2), Q(26,25), Q(1,1), Q(1,2)>>
FreqAlpha == [j \in 1..Len(Om) |-> RInv(RMul(Om[j], Om[j]))]          \* ascending in mu
Alpha == IF Family = "lb" THEN LbAlpha ELSE FreqAlpha
NA == Len(Alpha)

(* ascending sub-sequences of the alphabet = subsets of positions *)
Pick(S) == LET a == AscSeq(S, NA) IN [j \in 1..Len(a) |-> Alpha[a[j]]]
(* insert z zeros (the "konly" amplitudes of lb) at their place in an ascending sequence *)
WithZeros(seq, z) ==
    LET neg == SelectSeq(seq, LAMBDA x : RSign(x) < 0)
        pos == SelectSeq(seq, LAMBDA x : RSign(x) > 0)
    IN neg \o [j \in 1..z |-> RZero] \o pos

Classes == {"null", "both", "konly", "bonly"}        \* the null patterns of K and B differ in both directions
NB(c) == Cardinality({ i \in DOMAIN c : c[i] = "both" })
NZ(c) == Cardinality({ i \in DOMAIN c : c[i] = "konly" })
MinActive == 3
ClsVecs(n) == { c \in [1..n -> Classes] : NB(c) >= 1 /\ NB(c) + NZ(c) >= MinActive }

(* canonical spectra per number of "both" amplitudes: one inside the regime (lb: negatives > -1 first),
   one mixed *)
RegimeFirst == IF Family = "lb"
               THEN (IF Thorough THEN <<3, 4, 5, 6, 7, 9, 8, 1, 2>> ELSE <<2, 3, 4, 5, 6, 1>>)
               ELSE [j \in 1..NA |-> NA + 1 - j]
Canon1(nb) == { RegimeFirst[j] : j \in 1..nb }
Canon2(nb) == IF Family = "lb" THEN { NA + 1 - j : j \in 1..(nb \div 2) } \cup { j : j \in 1..(nb - nb \div 2) }
              ELSE { j : j \in 1..nb }
MkProblem(n, c, S, s) == [n |-> n, cls |-> c, sp |-> WithZeros(Pick(S), NZ(c)), s |-> s, zs |-> {}]

(* F1 "place": every placement of null / stiffness-only amplitudes (n <= NPlace), canonical spectra, scale 1;
   F2 "spec" : all spectra of the alphabet x scales {1, 2, 1/2} on a few placements *)
NPlace == IF Thorough THEN 5 ELSE 4
AllBoth(n) == [i \in 1..n |-> "both"]
PatternsAt(n) ==
    { AllBoth(n), [AllBoth(n) EXCEPT ![2] = "null"] } \cup
    (IF Family = "lb" THEN { [AllBoth(n) EXCEPT ![2] = "null", ![4] = "konly"], [AllBoth(n) EXCEPT ![1] = "konly"] } ELSE {})
(* "spec2": the null patterns of K and B differ (load / mass on a stiffness-less amplitude, massless stiff one) *)
Patterns2At(n) ==
    { [AllBoth(n) EXCEPT ![2] = "bonly"], [AllBoth(n) EXCEPT ![3] = "bonly", ![5] = "konly"] } \cup
    (IF Family = "freq" THEN { [AllBoth(n) EXCEPT ![1] = "konly"], [AllBoth(n) EXCEPT ![2] = "null", ![4] = "bonly"] } ELSE {})
Scales(c) == IF Thorough /\ NZ(c) > 0 THEN { ROne } ELSE { ROne, Q(2,1), Q(1,2) }
Nums(n, tag) == IF Thorough THEN (IF tag = "spec" THEN {1, 3, n - 1, n + 2} ELSE {1, 2, 3, n - 1, n, n + 2})
                ELSE IF tag = "place" THEN (IF Family = "lb" THEN {1, n - 1, n + 2} ELSE {1, n + 2})
                ELSE IF tag = "spec2" THEN {1, 3, n - 1} ELSE {1, 3, n - 1, n + 2}
OptsFor(n, tag) ==
    IF tag = "spec2"
    THEN (IF Family = "lb"
          THEN [api : {"lb", "panel_lb"}, sparse : BOOLEAN, num : Nums(n, tag), sort : {FALSE}, reduced : {FALSE}, pos : {0}]
          ELSE [api : {"freq"}, sparse : {TRUE}, num : Nums(n, tag), sort : BOOLEAN, reduced : {FALSE}, pos : {0}]
               \cup [api : {"freq", "panel_freq"}, sparse : {FALSE}, num : {2}, sort : BOOLEAN, reduced : {FALSE}, pos : {0}])
    ELSE IF Family = "lb"
    THEN [api : IF tag = "place" /\ (~Thorough \/ n >= 6) THEN {"lb"} ELSE {"lb", "panel_lb"}, sparse : BOOLEAN,
          num : Nums(n, tag), sort : {FALSE}, reduced : {FALSE}, pos : {0}]
         \cup (IF tag = "place" /\ (~Thorough \/ n >= 6) THEN {}
               ELSE [api : {"conecyl_lb"}, sparse : {TRUE}, num : Nums(n, tag), sort : {FALSE}, reduced : {FALSE}, pos : {3}])
    ELSE [api : IF tag = "place" /\ (~Thorough \/ n >= 6) THEN {"freq"} ELSE {"freq", "panel_freq"}, sparse : {TRUE},
          num : Nums(n, tag), sort : BOOLEAN, reduced : {FALSE}, pos : {0}]
         \cup [api : IF tag = "place" /\ (~Thorough \/ n >= 6) THEN {"freq"} ELSE {"freq", "panel_freq"}, sparse : {FALSE},
               num : {2}, sort : BOOLEAN, reduced : BOOLEAN, pos : {0}]

(* initial states by nested quantifiers (no big set of records has to be built and normalised):
   F1 / F2 as above; F3 (frequency family): F1 problems with n <= 4 and one mass column that sums to zero
   although it is not null - model level only, the harness does not realise these *)
KSubsets(k) == { T \in SUBSET (1..NA) : Cardinality(T) = k }
FirstBoth(c) == CHOOSE i \in DOMAIN c : c[i] = "both" /\ \A j \in DOMAIN c : c[j] = "both" => i <= j
MCInit ==
    \/ \E n \in 3..NPlace : \E c \in ClsVecs(n) : \E S \in {Canon1(NB(c)), Canon2(NB(c))} :
         \E o \in OptsFor(n, "place") : st = InitState(MkProblem(n, c, S, ROne), o, Dev)
    \/ \E c \in PatternsAt(5) : \E S \in KSubsets(NB(c)) : \E s \in Scales(c) :
         \E o \in OptsFor(5, "spec") : st = InitState(MkProblem(5, c, S, s), o, Dev)
    \/ \E c \in Patterns2At(5) : \E S \in KSubsets(NB(c)) :
         \E o \in OptsFor(5, "spec2") : st = InitState(MkProblem(5, c, S, ROne), o, Dev)
    \/ /\ Family = "freq"
       /\ \E n \in 3..4 : \E c \in { d \in ClsVecs(n) : \A i \in 1..n : d[i] \in {"null", "both"} } : \E S \in {Canon1(NB(c)), Canon2(NB(c))} :
            \E o \in OptsFor(n, "place") :
               st = InitState([MkProblem(n, c, S, ROne) EXCEPT !.zs = {FirstBoth(c)}], o, Dev)
(* END: one compact line per finished behaviour (which actions ran, how it ended, which antecedents held) *)
Flags(s) == [regime |-> IsLb(s.o.api) /\ Regime(s.p),
             tail |-> IsLb(s.o.api) /\ Finished(s) /\ Known(s) /\ Len(s.vals) > NPos(s.p),
             collision |-> ~IsLb(s.o.api) /\ Collision(s.p),
             agree |-> Finished(s) /\ s.o.sparse /\ Known(s) /\ (IF IsLb(s.o.api) THEN Regime(s.p) ELSE s.o.sort),
             unsorted |-> ~IsLb(s.o.api) /\ Finished(s) /\ Known(s) /\ ~FreqAscending(s.p, Ids(s))]
MCNext == /\ \/ ChooseK /\ PrintT(<<"REQ", st.p, st.o>>)
             \/ TrySparse \/ RemoveNull \/ TakeVW \/ SolveReduced \/ Scatter
             \/ NegateInvert \/ Sqrt \/ Sort \/ ReExpand \/ Return
          /\ Terminal(st') => PrintT(<<"END", st'.trail, st'.pc, st'.exc, st'.at, st'.o.api, Flags(st')>>)
MCSpec == MCInit /\ [][MCNext]_vars
=============================================================================
