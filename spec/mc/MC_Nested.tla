------------------------------- MODULE MC_Nested -------------------------------
EXTENDS Nested, PanelLattice
CONSTANTS Tier
Cross == [stack |-> << Ply(0,1,R(1,8),Ortho6), Ply(1,0,R(1,8),Ortho6), Ply(0,1,R(1,8),Ortho6) >>, off |-> RZero]
Single == [stack |-> << Ply(0,1,R(1,4),Ortho6) >>, off |-> RZero]
NestDefs ==
    { PD(mo, ab[1], ab[2], IF mo = "cpanel" THEN R(4,1) ELSE RZero, RZero, ROne, mn[1], mn[2], fl, lam, RZero, ROne, R(3,1), Zero3) :
        mo \in {"plate", "plate_w", "cpanel"}, ab \in { <<R(2,1), R(3,2)>> }, mn \in { <<2,3>>, <<4,4>> },
        fl \in {FlSS, FlPrimes}, lam \in {Cross, LamGen} }
    \cup { PD("plate_w", ab[1], ab[2], RZero, RZero, ROne, 5, 5, FlSS, lam, RZero, ROne, R(3,1), Zero3) :
             ab \in { <<R(1,1), R(1,1)>>, <<R(2,1), R(1,1)>>, <<R(1,1), R(5,1)>> }, lam \in {Cross, Single} }
NoPlace == [size |-> 0, row0 |-> 0, col0 |-> 0]
NestRequests(pd) ==
    { [q |-> "k0"] @@ NoPlace, [q |-> "kM"] @@ NoPlace }
    \cup { [q |-> "kG0", N |-> N] @@ NoPlace : N \in { <<R(-1,1), RZero, RZero>>, <<RZero, R(-1,1), RZero>>, <<R(-1,1), R(-1,2), RZero>> } }
VARIABLE phase
EmitInit == PInit /\ phase = 0
EmitNext ==
    \/ /\ phase = 0 /\ phase' = 1 /\ \E pd \in NestDefs : Define(pd)
    \/ /\ phase = 1 /\ phase' = 2
       /\ \E pd \in NestDefs : def = CompleteDef(pd) /\ \E r \in NestRequests(pd) : Eval(r)
EmitSpec == EmitInit /\ [][EmitNext]_<<pvars, phase>>
=============================================================================
