----------------------------- MODULE PanelLattice -----------------------------
(* Building blocks of the bounded models: laminates, edge-flag patterns, panel   *)
(* descriptions (pure definitions, shared by the MC_* modules).                  *)
EXTENDS PanelOps

Ply(p, q, t, mat) == [dir |-> <<p, q>>, t |-> t, mat |-> mat]
Iso == << R(7,1), R(7,1), R(1,4) >>
Ortho6 == << R(10,1), R(2,1), R(1,4), R(1,1), R(1,1), R(1,2) >>
Ortho9 == << R(20,1), R(1,1), R(3,10), R(2,1), R(2,1), R(1,1), R(1,1), R(1,5), R(1,5) >>
(* symmetric cross-ply; unsymmetric angle-ply with offset: all 18 A/B/D entries distinct, non-zero *)
LamSym == [stack |-> << Ply(0,1,R(1,8),Ortho6), Ply(1,0,R(1,8),Ortho6), Ply(0,1,R(1,8),Ortho6) >>, off |-> RZero]
LamGen == [stack |-> << Ply(1,2,R(1,8),Ortho6), Ply(-1,3,R(1,4),Ortho9), Ply(1,0,R(1,8),Iso) >>, off |-> R(1,8)]
LamIso == [stack |-> << Ply(0,1,R(1,4),Iso) >>, off |-> R(-1,8)]

P(k) == RFromInt(k)
Z4 == <<RZero, RZero, RZero, RZero>>
SSw == <<RZero, ROne, RZero, ROne>>
FlSS == << <<Z4, Z4>>, <<Z4, Z4>>, <<SSw, SSw>> >>                       \* package default: simply supported
FlFree == << <<UnitFlags, UnitFlags>>, <<UnitFlags, UnitFlags>>, <<UnitFlags, UnitFlags>> >>
FlPrimes == << << <<P(2),P(3),P(5),P(7)>>, <<P(11),P(13),P(17),P(19)>> >>,
               << <<P(23),P(29),P(31),P(37)>>, <<P(41),P(43),P(47),P(53)>> >>,
               << <<P(59),P(61),P(67),P(71)>>, <<P(73),P(79),P(83),P(89)>> >> >>
FlMixed == << << <<ROne,RZero,RZero,ROne>>, <<RZero,RZero,ROne,ROne>> >>,
              << <<RZero,ROne,ROne,RZero>>, <<ROne,ROne,RZero,RZero>> >>,
              << <<RZero,ROne,RZero,ROne>>, <<ROne,ROne,ROne,RZero>> >> >>
(* w restrained on the flow edges (x edges), everything else generic: for the aerodynamic matrices *)
FlAeroX == << << <<P(2),P(3),P(5),P(7)>>, <<P(11),P(13),P(17),P(19)>> >>,
              << <<P(23),P(29),P(31),P(37)>>, <<P(41),P(43),P(47),P(53)>> >>,
              << <<RZero,P(61),RZero,P(71)>>, <<P(73),P(79),P(83),P(89)>> >> >>
FlAeroY == << << <<P(2),P(3),P(5),P(7)>>, <<P(11),P(13),P(17),P(19)>> >>,
              << <<P(23),P(29),P(31),P(37)>>, <<P(41),P(43),P(47),P(53)>> >>,
              << <<P(59),P(61),P(67),P(71)>>, <<RZero,P(79),RZero,P(89)>> >> >>

Zero3 == <<RZero, RZero, RZero>>
PD(model, a, b, r, sina, cosa, m, n, fl, lam, f1, f2, mu, Ncte) ==
    [model |-> model, a |-> a, b |-> b, r |-> r, sina |-> sina, cosa |-> cosa, m |-> m, n |-> n,
     fl |-> fl, stack |-> lam.stack, off |-> lam.off, y1 |-> RMul(f1, b), y2 |-> RMul(f2, b),
     mu |-> mu, Ncte |-> Ncte]
=============================================================================
