--------------------------- MODULE MC_ShellPartition ---------------------------
(* bounded model of ShellPartition; every transition that calls the package    *)
(* (exclude_dofs_matrix, calc_full_c) is printed so that the harness can       *)
(* replay it on the real ConeCyl methods.                                      *)
EXTENDS ShellPartition
Req(op) == [op |-> op, n |-> def.n, xs |-> def.xs, cks |-> def.cks, inc |-> def.inc,
            K |-> IF op = "Exclude" THEN def.K ELSE <<>>, vec |-> IF op = "Exclude" THEN <<>> ELSE vec]
EmitNext == /\ Len(hist) < 3
            /\ \/ DoExclude(Dev) /\ (hist # <<>> \/ PrintT(<<"REQ", Req("Exclude")>>))
               \/ DoFullC /\ PrintT(<<"REQ", Req("FullC")>>)
               \/ DoDelete
EmitSpec == Init /\ [][EmitNext]_vars
=============================================================================
