CONSTANTS
  Seed = 12345
  NCases = 12
  MaxLimbs = 12
