----------------------------- MODULE MC_PanelModel -----------------------------
(* Bounded model of PanelModel: a covering lattice of panel descriptions and     *)
(* requests.  Every <<description, request>> pair is printed for replay into the *)
(* real Panel class; invariants of PanelModel are checked on every state.        *)
EXTENDS PanelModel, PanelLattice
CONSTANTS Tier, Qs     \* Qs: the request kinds to enumerate

Ivs == { <<RZero, ROne>>, <<RZero, R(1,2)>>, <<R(1,4), R(3,4)>>, <<R(1,3), ROne>> }

QuickDefs ==
    { PD("plate", R(2,1), R(3,2), RZero, RZero, ROne, 4, 3, FlPrimes, LamGen, iv[1], iv[2], R(3,1), Zero3) : iv \in Ivs }
    \cup { PD("plate", R(1,1), R(1,2), RZero, RZero, ROne, 3, 3, fl, LamSym, RZero, ROne, R(2,1), Zero3) : fl \in {FlSS, FlFree, FlMixed} }
    \cup { PD("plate", R(2,1), R(3,2), RZero, RZero, ROne, 3, 3, FlPrimes, LamGen, RZero, ROne, R(3,1), <<R(-3,1), R(2,1), R(1,1)>>) }
    (* a pre-load with a single non-zero component, each component in turn *)
    \cup { PD("plate", R(2,1), R(3,2), RZero, RZero, ROne, 2, 3, FlPrimes, LamGen, RZero, ROne, R(3,1), nn)
             : nn \in { <<R(-3,1), RZero, RZero>>, <<RZero, R(2,1), RZero>>, <<RZero, RZero, R(1,1)>> } }
    \cup { PD("cpanel", R(2,1), R(3,2), R(4,1), RZero, ROne, 3, 4, FlPrimes, LamGen, iv[1], iv[2], R(3,1), Zero3)
             : iv \in { <<RZero, ROne>>, <<R(1,4), R(3,4)>> } }
    \cup { PD("kpanel", R(2,1), R(3,2), R(4,1), R(3,5), R(4,5), 3, 3, FlPrimes, LamGen, RZero, ROne, R(3,1), Zero3) }
    (* conical strips: the width narrows along the meridian, the limits are measured on the bottom edge *)
    \cup { PD("kpanel", R(2,1), R(3,2), R(4,1), R(3,5), R(4,5), 2, 2, FlPrimes, LamGen, iv[1], iv[2], R(3,1), Zero3)
             : iv \in { <<RZero, R(1,2)>>, <<R(1,2), ROne>> } }
    \cup { PD("plate_w", R(2,1), R(3,2), RZero, RZero, ROne, 4, 4, FlPrimes, LamGen, iv[1], iv[2], R(3,1), Zero3)
             : iv \in { <<RZero, ROne>>, <<R(1,3), ROne>> } }
    \cup { PD("plate", R(2,1), R(3,2), RZero, RZero, ROne, 3, 3, FlFree, LamIso, RZero, ROne, R(3,1), Zero3) }
    \cup { PD("plate", R(2,1), R(3,2), RZero, RZero, ROne, 4, 4, FlFree, LamIso, RZero, ROne, R(3,1), Zero3) }
    (* coincidences between unrelated lengths: the strip ends where y equals the panel LENGTH a (a < b) *)
    \cup { PD(mo, R(1,1), R(2,1), IF mo = "cpanel" THEN R(4,1) ELSE RZero, RZero, ROne, 3, 3, FlPrimes, LamGen, RZero, R(1,2), R(3,1), Zero3)
             : mo \in {"plate", "cpanel"} }
ThoroughDefs ==
    QuickDefs
    \cup { PD(mo, ab[1], ab[2], IF mo \in {"plate", "plate_w"} THEN RZero ELSE r, RZero, ROne, mn[1], mn[2], fl, lam,
              iv[1], iv[2], R(3,1), Zero3) :
             mo \in {"plate", "cpanel", "plate_w"}, ab \in { <<R(2,1), R(3,2)>>, <<R(1,1), R(3,1)>> },
             r \in { R(4,1), R(10,1) }, mn \in { <<4,4>>, <<2,5>>, <<5,3>> },
             fl \in {FlSS, FlFree, FlPrimes, FlMixed}, lam \in {LamSym, LamGen}, iv \in Ivs }
    \cup { PD("kpanel", R(2,1), R(3,2), R(4,1), sc[1], sc[2], mn[1], mn[2], fl, lam, iv[1], iv[2], R(3,1), Zero3) :
             sc \in { <<R(3,5), R(4,5)>>, <<R(5,13), R(12,13)>>, <<RZero, ROne>> },
             mn \in { <<3,3>>, <<2,4>> }, fl \in {FlPrimes, FlSS}, lam \in {LamGen},
             iv \in { <<RZero, ROne>>, <<R(1,4), R(3,4)>> } }
    \cup { PD("plate", R(2,1), R(3,2), RZero, RZero, ROne, 8, 2, FlPrimes, LamGen, RZero, ROne, R(3,1), Zero3),
           PD("plate", R(2,1), R(3,2), RZero, RZero, ROne, 2, 8, FlPrimes, LamGen, RZero, ROne, R(3,1), Zero3) }
Defs == IF Tier = "quick" THEN QuickDefs ELSE ThoroughDefs

NoPlace == [size |-> 0, row0 |-> 0, col0 |-> 0]
Loads == IF Tier = "quick" THEN { <<R(-3,1), R(2,1), R(1,1)>>, <<RZero, R(-1,1), RZero>> }
         ELSE { <<R(-3,1), R(2,1), R(1,1)>>, <<RZero, R(-1,1), RZero>>, <<R(1,1), RZero, RZero>>,
                <<RZero, RZero, R(-2,1)>>, <<R(-1,1), R(-1,1), R(1,2)>> }
Requests(pd) ==
    { [q |-> "k0"] @@ pl : pl \in {NoPlace, [size |-> Num(pd.model) * pd.m * pd.n + 20, row0 |-> 5, col0 |-> 5]} }
    \cup { [q |-> "kG0", N |-> N] @@ NoPlace : N \in Loads }
    \cup { [q |-> "kM"] @@ pl : pl \in {NoPlace} }
AeroDefs == { PD(mo, R(2,1), R(3,2), IF mo = "cpanel" THEN R(4,1) ELSE RZero, RZero, ROne, 3, 3, fl, LamGen,
                 RZero, ROne, R(3,1), Zero3) : mo \in {"plate", "cpanel", "plate_w"}, fl \in {FlAeroX, FlAeroY} }
AeroRequests(pd) ==
    LET flow == IF pd.fl = FlAeroX THEN "x" ELSE "y"
    IN { [q |-> "kA", flow |-> flow, beta |-> R(5,2), gamma |-> IF pd.model = "cpanel" /\ flow = "x" THEN g ELSE RZero] @@ NoPlace
           : g \in {RZero, R(3,4)} }
       \cup { [q |-> "cA", aeromu |-> R(7,4)] @@ NoPlace }
       \cup { [q |-> "kAmach", flow |-> flow, mach |-> mr[1], root |-> mr[2], rho |-> R(5,4), V |-> R(3,1), ainf |-> R(2,1)] @@ NoPlace
               : mr \in { <<R(5,3), R(4,3)>>, <<R(13,5), R(12,5)>> } }

(* field requests: a fixed rational state and points incl. corners, edges and interior *)
StateVec(pd) == Fn([k \in 1..(Num(pd.model) * pd.m * pd.n) |-> R(((k * 7 + 3) % 11) - 5, 8)])
FieldPts(pd) == << <<RZero, RZero>>, <<pd.a, pd.b>>, <<RMul(R(1,2), pd.a), RMul(R(1,3), pd.b)>>,
                   <<RMul(R(1,4), pd.a), RMul(R(3,4), pd.b)>>, <<RMul(R(1,8), pd.a), pd.b>>,
                   <<pd.a, RMul(R(5,8), pd.b)>>, <<RMul(R(7,8), pd.a), RMul(R(1,8), pd.b)>> >>
Forces1(pd) == << <<RMul(R(1,2), pd.a), RMul(R(1,2), pd.b), R(1,1), R(-2,1), R(3,1)>>,
                  <<pd.a, RMul(R(1,4), pd.b), R(5,2), RZero, R(-1,1)>> >>
Forces2(pd) == << <<RMul(R(1,4), pd.a), pd.b, RZero, R(1,2), R(7,1)>> >>
(* the same load point visited again after another one (e.g. fx and fz added separately, a constant and an
   incrementable force at one point) *)
Forces3(pd) == << <<RMul(R(1,2), pd.a), RMul(R(1,2), pd.b), R(1,1), RZero, RZero>>,
                  <<pd.a, RMul(R(1,4), pd.b), R(5,2), RZero, R(-1,1)>>,
                  <<RMul(R(1,2), pd.a), RMul(R(1,2), pd.b), RZero, R(-2,1), R(3,1)>> >>
Forces4(pd) == << <<pd.a, RMul(R(1,4), pd.b), RZero, R(1,2), R(7,1)>>,
                  <<RMul(R(1,2), pd.a), RMul(R(1,2), pd.b), R(1,4), RZero, R(-1,2)>> >>
FieldDefs == { pd \in QuickDefs : pd.model \in {"plate", "cpanel", "plate_w"} /\ pd.y1 = RZero /\ pd.y2 = pd.b }
FieldRequests(pd) ==
    { [q |-> "uvw", c |-> StateVec(pd), pts |-> FieldPts(pd)] @@ NoPlace }
    \cup (IF pd.model = "plate_w" THEN {}        \* the w-only model offers displacements only
          ELSE { [q |-> qq, c |-> StateVec(pd), pts |-> FieldPts(pd), NL |-> nl] @@ NoPlace : qq \in {"strain", "stress"}, nl \in BOOLEAN }
               \cup { [q |-> "fext", forces |-> Forces1(pd), forcesInc |-> Forces2(pd), inc |-> i] @@ NoPlace : i \in {ROne, R(3,8)} }
               \cup { [q |-> "fext", forces |-> <<>>, forcesInc |-> Forces1(pd), inc |-> R(1,2)] @@ NoPlace }
               (* boundary value of the load factor: only the constant forces remain *)
               \cup { [q |-> "fext", forces |-> Forces2(pd), forcesInc |-> Forces1(pd), inc |-> RZero] @@ NoPlace }
               \cup { [q |-> "fext", forces |-> Forces3(pd), forcesInc |-> Forces4(pd), inc |-> i] @@ NoPlace : i \in {ROne, R(3,8)} })

(* non-linear requests: small orders, flags that leave in-plane and out-of-plane amplitudes active *)
NLDefs == { PD(mo, R(2,1), R(3,2), IF mo = "cpanel" THEN R(4,1) ELSE RZero, RZero, ROne, mn[1], mn[2], fl, lam,
               RZero, ROne, R(3,1), Zero3) :
              mo \in {"plate", "cpanel"}, mn \in (IF Tier = "quick" THEN {<<2,2>>} ELSE {<<2,2>>, <<3,2>>, <<2,3>>}),
              fl \in (IF Tier = "quick" THEN {FlPrimes} ELSE {FlPrimes, FlMixed}), lam \in {LamGen} }
          \cup { PD("plate", R(2,1), R(3,2), RZero, RZero, ROne, 4, 3, FlFree, LamGen, RZero, ROne, R(3,1), Zero3) }
          (* orders whose exact Gauss rules differ along x and y (n = 5 needs 9 points, m = 2 needs 7) *)
          \cup { PD("plate", R(2,1), R(3,2), RZero, RZero, ROne, 2, 5, FlMixed, LamGen, RZero, ROne, R(3,1), Zero3) }
NLState(pd, amp) == Fn([k \in 1..(3 * pd.m * pd.n) |-> RMul(amp, R(((k * 5 + 2) % 9) - 4, 16))])
NLRequests(pd) ==
    IF pd.m = 4 THEN { [q |-> "kGc", c |-> NLState(pd, ROne), NL |-> FALSE, taper |-> Uniform] @@ NoPlace }
    ELSE IF pd.n = 5 THEN { [q |-> "fint", c |-> NLState(pd, ROne), taper |-> Uniform] @@ NoPlace }
    ELSE LET amps == IF Tier = "quick" THEN {ROne} ELSE {ROne, R(1,8)}
             (* quick: the costly stencil invariants of the uniform tangent on the flat model only *)
             kTuni == IF Tier = "quick" /\ pd.model = "cpanel" THEN {} ELSE
                        { [q |-> "kT", c |-> NLState(pd, amp), taper |-> Uniform] @@ NoPlace : amp \in amps }
         IN { [q |-> "fint", c |-> NLState(pd, amp), taper |-> Uniform] @@ NoPlace : amp \in amps }
            \cup kTuni
            \cup { [q |-> qq, c |-> NLState(pd, ROne), taper |-> <<ROne, R(1,4), R(-3,8)>>] @@ NoPlace : qq \in {"fint", "kT"} }
            \cup { [q |-> "kGc", c |-> NLState(pd, ROne), NL |-> nl, taper |-> Uniform] @@ NoPlace : nl \in BOOLEAN }

VARIABLE phase
EmitInit == PInit /\ phase = 0
EmitNext ==
    \/ /\ phase = 0 /\ phase' = 1
       /\ \E pd \in Defs \cup AeroDefs \cup NLDefs : Define(pd) /\ PrintT(<<"DEF", pd>>)
    \/ /\ phase = 1 /\ phase' = 2
       /\ \E pd \in Defs \cup AeroDefs \cup NLDefs : def = CompleteDef(pd) /\
             \E r \in (IF pd \in AeroDefs THEN AeroRequests(pd) ELSE {}) \cup (IF pd \in Defs THEN Requests(pd) ELSE {})
                        \cup (IF pd \in FieldDefs THEN FieldRequests(pd) ELSE {})
                        \cup (IF pd \in NLDefs THEN NLRequests(pd) ELSE {}) :
                 r.q \in Qs /\ Eval(r) /\ PrintT(<<"REQ", pd, r>>)
EmitSpec == EmitInit /\ [][EmitNext]_<<pvars, phase>>
=============================================================================
