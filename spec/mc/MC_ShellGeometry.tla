--------------------------- MODULE MC_ShellGeometry ---------------------------
(* bounded model of ShellGeometry: every admissible subset of (r1, r2, H, L) of *)
(* every lattice shell, load inputs, prescribed-amplitude flags; up to three    *)
(* successive _rebuild calls.  Each Rebuild transition is printed for replay.   *)
EXTENDS ShellGeometry
Req == [geo |-> obj.geo, ang |-> obj.ang, n2 |-> obj.n2, Fc |-> obj.Fc, nxxIn |-> obj.nxxIn, xiLA |-> obj.xiLA,
        uTM |-> obj.uTM, thetaTdeg |-> obj.thetaTdeg, tanBeta |-> obj.tanBeta, pdC |-> obj.pdC, pdT |-> obj.pdT,
        nreb |-> nreb + 1]
EmitNext == \/ \E S \in Subsets, b \in BaseGeos, a \in Angles, li \in LoadIns, pd \in PdIns : SetInputs(S, b, a, li, pd)
            \/ (nreb < 3 /\ Rebuild /\ (nreb > 0 \/ PrintT(<<"REQ", Req>>)))
EmitSpec == GInit /\ [][EmitNext]_gvars
(* inadmissible subsets: what the module says happens (raise or unspecified), for the harness's census *)
=============================================================================
