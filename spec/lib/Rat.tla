--------------------------------- MODULE Rat ---------------------------------
(***************************************************************************)
(* Exact rational numbers over BigInt: <<num, den>>, den > 0, gcd = 1.     *)
(* Pure TLA+ definitions = meaning; java/Rat.java = accelerator, checked   *)
(* differentially by MC_ArithSelfTest.                                     *)
(***************************************************************************)
EXTENDS BigInt

IsRat(r) == /\ IsBigInt(r[1]) /\ IsBigInt(r[2]) /\ r[2][1] = 1
            /\ BGcd(r[1], r[2]) = BOne

RMk(n, d) ==    \* d # 0
    LET g  == BGcd(n, d)
        n1 == BQuot(n, g)
        d1 == BQuot(d, g)
    IN IF d1[1] < 0 THEN <<BNeg(n1), BNeg(d1)>> ELSE <<n1, d1>>

RZero == <<BZero, BOne>>
ROne  == <<BOne, BOne>>
RFromInt(n) == <<BFromInt(n), BOne>>
RFrac(n, d) == RMk(BFromInt(n), BFromInt(d))       \* small TLC integers, d # 0
RQ(n, d) == RFrac(n, d)
RFromBig(b) == <<b, BOne>>

RNeg(r) == <<BNeg(r[1]), r[2]>>
RAbs(r) == <<BAbs(r[1]), r[2]>>
RSign(r) == r[1][1]
RIsZero(r) == r[1][1] = 0
RAdd(a, b) == RMk(BAdd(BMul(a[1], b[2]), BMul(b[1], a[2])), BMul(a[2], b[2]))
RSub(a, b) == RAdd(a, RNeg(b))
RMul(a, b) == RMk(BMul(a[1], b[1]), BMul(a[2], b[2]))
RInv(a)    == IF a[1][1] > 0 THEN <<a[2], a[1]>> ELSE <<BNeg(a[2]), BNeg(a[1])>>   \* a # 0
RDiv(a, b) == RMul(a, RInv(b))
RCmp(a, b) == BCmp(BMul(a[1], b[2]), BMul(b[1], a[2]))
RLt(a, b) == RCmp(a, b) < 0
RLe(a, b) == RCmp(a, b) <= 0
REq(a, b) == a = b            \* canonical form makes equality structural
RMax(a, b) == IF RLe(a, b) THEN b ELSE a
RMin(a, b) == IF RLe(a, b) THEN a ELSE b

RECURSIVE RPowNat(_,_)
RPowNat(r, n) == IF n = 0 THEN ROne ELSE RMul(r, RPowNat(r, n-1))
RPow(r, k) == IF k >= 0 THEN RPowNat(r, k) ELSE RInv(RPowNat(r, -k))

RECURSIVE RSumFrom(_,_)
RSumFrom(s, k) == IF k > Len(s) THEN RZero ELSE RAdd(s[k], RSumFrom(s, k+1))
RSum(s) == RSumFrom(s, 1)                          \* s: sequence of Rat
RECURSIVE RDotFrom(_,_,_)
RDotFrom(s, t, k) == IF k > Len(s) THEN RZero
                     ELSE RAdd(RMul(s[k], t[k]), RDotFrom(s, t, k+1))
RDot(s, t) == RDotFrom(s, t, 1)                    \* equally long sequences
RECURSIVE RAbsSumFrom(_,_)
RAbsSumFrom(s, k) == IF k > Len(s) THEN RZero ELSE RAdd(RAbs(s[k]), RAbsSumFrom(s, k+1))
RAbsSum(s) == RAbsSumFrom(s, 1)

(* An IEEE-754 double is exactly  s * mant * 2^e ; traces carry it as      *)
(* <<s, limbs of mant, e>>.                                                *)
RTwoPow(e) == RPow(RFromInt(2), e)
RFromDyadic(d) == RMul(<<BMk(d[1], d[2]), BOne>>, RTwoPow(d[3]))

(* the only place floats meet rationals: |x - E| <= S * 2^-t               *)
RClose(x, E, S, t) == RLe(RAbs(RSub(x, E)), RMul(S, RTwoPow(-t)))
=============================================================================
