------------------------------- MODULE TraceLib -------------------------------
(***************************************************************************)
(* Shared pieces of the trace specifications: the recorded trace, exact    *)
(* decoding of observed IEEE doubles, the tolerance predicate, verdict     *)
(* output.  Every trace specification steps through Trace with a position *)
(* variable; a verdict line is printed for every judged event, so verdicts *)
(* are total: the harness requires exactly one per judged event.           *)
(***************************************************************************)
EXTENDS Rat, TLC, Json

Trace == JsonDeserialize("trace.json")

(* observed double <<s, limbs, e>> -> Rat *)
Obs(d) == RFromDyadic(<<d[1], d[2], d[3]>>)
(* rational sent by the harness <<<<s,limbs>>,<<1,limbs>>>> -> canonical Rat *)
InRat(r) == RMk(<<r[1][1], r[1][2]>>, <<r[2][1], r[2][2]>>)

Close(d, E, S, t) == RClose(Obs(d), E, S, t)

(* verdict line; parsed by the harness by bracket matching *)
Verdict(l, v, detail) == PrintT(<<"V", l, v, detail>>)
=============================================================================
