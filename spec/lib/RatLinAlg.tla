------------------------------- MODULE RatLinAlg -------------------------------
(* Small dense linear algebra over Rat: matrices are sequences of rows.        *)
EXTENDS Poly

Rows(M) == Len(M)
Cols(M) == IF Len(M) = 0 THEN 0 ELSE Len(M[1])
MZero(r, c) == Fn([i \in 1..r |-> Fn([j \in 1..c |-> RZero])])
MId(n) == Fn([i \in 1..n |-> Fn([j \in 1..n |-> IF i = j THEN ROne ELSE RZero])])
MT(M) == Fn([j \in 1..Cols(M) |-> Fn([i \in 1..Rows(M) |-> M[i][j]])])
MCol(M, j) == Fn([i \in 1..Rows(M) |-> M[i][j]])
MMul(A, B) == LET Bt == MT(B)
              IN Fn([i \in 1..Rows(A) |-> Fn([j \in 1..Cols(B) |-> RDot(A[i], Bt[j])])])
MAdd(A, B) == Fn([i \in 1..Rows(A) |-> Fn([j \in 1..Cols(A) |-> RAdd(A[i][j], B[i][j])])])
MSub(A, B) == Fn([i \in 1..Rows(A) |-> Fn([j \in 1..Cols(A) |-> RSub(A[i][j], B[i][j])])])
MScale(c, A) == Fn([i \in 1..Rows(A) |-> Fn([j \in 1..Cols(A) |-> RMul(c, A[i][j])])])
MAbs(A) == Fn([i \in 1..Rows(A) |-> Fn([j \in 1..Cols(A) |-> RAbs(A[i][j])])])
MVec(A, v) == Fn([i \in 1..Rows(A) |-> RDot(A[i], v)])
MSym(A) == \A i \in 1..Rows(A), j \in 1..Cols(A) : A[i][j] = A[j][i]
MSkew(A) == \A i \in 1..Rows(A), j \in 1..Cols(A) : A[i][j] = RNeg(A[j][i])
(* sub-matrix on index sequences *)
MSubMat(A, rs, cs) == Fn([i \in 1..Len(rs) |-> Fn([j \in 1..Len(cs) |-> A[rs[i]][cs[j]]])])
(* block matrix [[A,B],[C,D]] *)
MBlock(A, B, C, D) ==
    Fn([i \in 1..(Rows(A)+Rows(C)) |->
        IF i <= Rows(A) THEN A[i] \o B[i] ELSE C[i-Rows(A)] \o D[i-Rows(A)]])
Quad(A, v) == RDot(v, MVec(A, v))       \* v^T A v

(* LDL^T pivots of a symmetric matrix by Gaussian elimination without pivoting
   (exact): the matrix is positive definite iff all pivots are > 0.  Elimination
   stops at a non-positive pivot. *)
RECURSIVE PivotsFrom(_,_)
PivotsFrom(A, k) ==
    IF k > Rows(A) THEN <<>>
    ELSE LET p == A[k][k]
         IN IF RSign(p) <= 0 THEN <<p>>
            ELSE LET A2 == Fn([i \in 1..Rows(A) |-> Fn([j \in 1..Rows(A) |->
                               IF i > k /\ j > k
                               THEN RSub(A[i][j], RDiv(RMul(A[i][k], A[k][j]), p))
                               ELSE A[i][j]])])
                 IN <<p>> \o PivotsFrom(A2, k+1)
Pivots(A) == PivotsFrom(A, 1)
PosDef(A) == LET p == Pivots(A) IN Len(p) = Rows(A) /\ \A k \in 1..Len(p) : RSign(p[k]) > 0

(* exact solution of the square system A x = b by Gauss-Jordan elimination with row search
   (A non-singular): returns x *)
RECURSIVE GaussFrom(_,_,_)
GaussFrom(M, k, n) ==        \* M: n x (n+1) augmented matrix, columns 1..k-1 already reduced
    IF k > n THEN Fn([i \in 1..n |-> M[i][n+1]])
    ELSE LET piv == CHOOSE r \in k..n : ~RIsZero(M[r][k])
             M1 == Fn([i \in 1..n |-> IF i = k THEN M[piv] ELSE IF i = piv THEN M[k] ELSE M[i]])
             rowk == Fn([j \in 1..(n+1) |-> RDiv(M1[k][j], M1[k][k])])
             M2 == Fn([i \in 1..n |-> IF i = k THEN rowk
                                       ELSE Fn([j \in 1..(n+1) |-> RSub(M1[i][j], RMul(M1[i][k], rowk[j]))])])
         IN GaussFrom(M2, k+1, n)
Solve(A, b) == GaussFrom(Fn([i \in 1..Rows(A) |-> A[i] \o <<b[i]>>]), 1, Rows(A))
=============================================================================
