--------------------------------- MODULE Poly ---------------------------------
(***************************************************************************)
(* Dense univariate polynomials over Rat: a sequence p, p[k] being the     *)
(* coefficient of x^(k-1); the zero polynomial is <<>> and no trailing     *)
(* zero coefficient is kept (canonical form => structural equality).       *)
(***************************************************************************)
EXTENDS Rat, TLC

(* TLC represents [k \in S |-> e] lazily and would re-evaluate e on every
   application; Fn forces the function into an explicit table once. *)
Fn(f) == TLCEval(f)

RECURSIVE PTrim(_)
PTrim(p) == IF p = <<>> THEN p
            ELSE IF RIsZero(p[Len(p)]) THEN PTrim(SubSeq(p, 1, Len(p)-1)) ELSE p

PCoef(p, k) == IF k <= Len(p) THEN p[k] ELSE RZero       \* k = power + 1
PDeg(p) == Len(p) - 1
PConst(c) == PTrim(<<c>>)
PX == <<RZero, ROne>>
PMax(a, b) == IF a > b THEN a ELSE b

PAdd(p, q) == PTrim(Fn([k \in 1..PMax(Len(p), Len(q)) |-> RAdd(PCoef(p,k), PCoef(q,k))]))
PScale(c, p) == PTrim(Fn([k \in 1..Len(p) |-> RMul(c, p[k])]))
PNeg(p) == Fn([k \in 1..Len(p) |-> RNeg(p[k])])
PSub(p, q) == PAdd(p, PNeg(q))

(* coefficient of x^(k-1) in p*q = sum_{a+b = k+1} p[a] q[b] *)
PMul(p, q) ==
    IF p = <<>> \/ q = <<>> THEN <<>>
    ELSE Fn([k \in 1..(Len(p) + Len(q) - 1) |->
            LET lo == PMax(1, k + 1 - Len(q))
                hi == IF k < Len(p) THEN k ELSE Len(p)
            IN RDot([a \in 1..(hi - lo + 1) |-> p[lo + a - 1]],
                    [a \in 1..(hi - lo + 1) |-> q[k + 1 - (lo + a - 1)]])])

PDeriv(p) == IF Len(p) <= 1 THEN <<>>
             ELSE Fn([k \in 1..(Len(p)-1) |-> RMul(RFromInt(k), p[k+1])])
RECURSIVE PDerivN(_,_)
PDerivN(p, n) == IF n = 0 THEN p ELSE PDerivN(PDeriv(p), n-1)

(* antiderivative with zero constant term *)
PAnti(p) == IF p = <<>> THEN <<>>
            ELSE Fn([k \in 1..(Len(p)+1) |-> IF k = 1 THEN RZero ELSE RMul(RFrac(1, k-1), p[k-1])])

(* Horner evaluation *)
RECURSIVE PEvalFrom(_,_,_)
PEvalFrom(p, x, k) == IF k > Len(p) THEN RZero
                      ELSE RAdd(p[k], RMul(x, PEvalFrom(p, x, k+1)))
PEval(p, x) == PEvalFrom(p, x, 1)

(* sum |a_k| |x|^k : the scale of the tolerance rule for a polynomial value *)
PAbs(p) == Fn([k \in 1..Len(p) |-> RAbs(p[k])])
PAbsEval(p, x) == PEval(PAbs(p), RAbs(x))

PIntegrate(p, a, b) == LET P == PAnti(p) IN RSub(PEval(P, b), PEval(P, a))

(* p(c0 + c1*x) as a polynomial in x, by Horner on polynomials *)
RECURSIVE PComposeLinFrom(_,_,_)
PComposeLinFrom(p, lin, k) ==
    IF k > Len(p) THEN <<>>
    ELSE PAdd(PConst(p[k]), PMul(lin, PComposeLinFrom(p, lin, k+1)))
PComposeLin(p, c0, c1) == PComposeLinFrom(p, PTrim(<<c0, c1>>), 1)
=============================================================================
