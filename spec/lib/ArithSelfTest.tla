---------------------------- MODULE ArithSelfTest ----------------------------
(* Differential self-test of the Java accelerators of BigInt / Rat.        *)
(* TLC evaluates Results once with the override classes on the class path  *)
(* and once without; the harness requires the two printed values to be     *)
(* identical.  Operands come from a seeded congruential generator.         *)
EXTENDS Rat, TLC
CONSTANTS Seed, NCases, MaxLimbs

Lcg(x) == (x * 1103 + 12345) % 1048576

RECURSIVE GenLimbs(_,_)
GenLimbs(x, n) == IF n = 0 THEN <<>>
                  ELSE <<Lcg(x) % Base>> \o GenLimbs(Lcg(x), n-1)
RECURSIVE Iter(_,_)
Iter(x, n) == IF n = 0 THEN x ELSE Iter(Lcg(x), n-1)

GenBig(x) ==   \* sign and size from x, limbs from following draws
    LET n == (x \div 7) % (MaxLimbs + 1)
        l == NTrim(GenLimbs(x, n))
        s == IF x % 3 = 0 THEN -1 ELSE 1
    IN BMk(s, l)
NonZero(b) == IF b[1] = 0 THEN BFromInt(7) ELSE b

Case(k) ==
    LET x0 == Iter(Seed + 17*k, 3)
        a  == GenBig(x0)
        b  == GenBig(Iter(x0, 50))
        c  == NonZero(GenBig(Iter(x0, 100)))
        d  == NonZero(GenBig(Iter(x0, 150)))
        p  == RMk(a, c)
        q  == RMk(b, d)
    IN << BAdd(a,b), BSub(a,b), BMul(a,b), BCmp(a,b), BDivMod(a,c), BGcd(a,b),
          BGcd(a, BZero), BQuot(BMul(a,c), c), BPowNat(BFromInt((x0 % 19) - 9), x0 % 23),
          p, q, RAdd(p,q), RSub(p,q), RMul(p,q),
          IF RIsZero(q) THEN RZero ELSE RDiv(p,q), RCmp(p,q),
          RPow(RFrac((x0 % 11) + 1, (x0 % 7) + 1), (x0 % 9) - 4),
          RSum(<<p, q, p, RNeg(q)>>), RDot(<<p, q>>, <<q, p>>), RAbsSum(<<p, RNeg(q), q>>),
          RFromDyadic(<<IF x0 % 2 = 0 THEN 1 ELSE -1, NonZero(a)[2], (x0 % 140) - 90>>),
          RTwoPow((x0 % 100) - 50),
          RClose(p, q, RAbs(p), 3) >>

Results == [k \in 1..NCases |-> Case(k)]
WellFormed == \A k \in 1..NCases :
                 /\ IsBigInt(Results[k][1]) /\ IsBigInt(Results[k][3])
                 /\ IsRat(Results[k][12]) /\ IsRat(Results[k][14])
ASSUME PrintT(<<"ARITH", Results>>)
ASSUME WellFormed
=============================================================================
