------------------------------- MODULE BigInt -------------------------------
(***************************************************************************)
(* Arbitrary-precision integers for TLC (whose own integers are 32 bit and *)
(* for which overflow is an error).                                        *)
(*                                                                         *)
(* A BigInt is <<s, limbs>> : s \in {-1,0,1}; limbs is a little-endian     *)
(* sequence over 0..Base-1 without a leading (= last) zero limb; zero is   *)
(* <<0, <<>>>>.  Base = 10^4 so that a limb product plus carries fits into *)
(* 31 bits.                                                                *)
(*                                                                         *)
(* Every operator below has a pure TLA+ definition, which is its meaning.  *)
(* For speed the operators listed in java/BigInt.java are overridden with  *)
(* java.math.BigInteger; spec/mc/MC_ArithSelfTest checks, differentially   *)
(* on seeded operands, that the override and the definitions agree.        *)
(***************************************************************************)
EXTENDS Integers, Sequences

Base == 10000

IsLimbs(l) == /\ \A k \in 1..Len(l) : l[k] \in 0..(Base-1)
              /\ (Len(l) > 0 => l[Len(l)] # 0)
IsBigInt(x) == /\ x[1] \in {-1,0,1}
               /\ IsLimbs(x[2])
               /\ (x[1] = 0 <=> x[2] = <<>>)

----------------------------------------------------------------------------
(* naturals as limb sequences *)

RECURSIVE NTrim(_)
NTrim(l) == IF l = <<>> THEN l
            ELSE IF l[Len(l)] = 0 THEN NTrim(SubSeq(l, 1, Len(l)-1)) ELSE l

NLimb(l, k) == IF k <= Len(l) THEN l[k] ELSE 0

RECURSIVE NAddFrom(_,_,_,_)
NAddFrom(a, b, k, carry) ==
    IF k > Len(a) /\ k > Len(b)
    THEN IF carry = 0 THEN <<>> ELSE <<carry>>
    ELSE LET s == NLimb(a,k) + NLimb(b,k) + carry
         IN <<s % Base>> \o NAddFrom(a, b, k+1, s \div Base)
NAdd(a, b) == NAddFrom(a, b, 1, 0)

RECURSIVE NCmpFrom(_,_,_)
NCmpFrom(a, b, k) == \* compare limbs k, k-1, .., 1 of equally long a, b
    IF k = 0 THEN 0
    ELSE IF a[k] < b[k] THEN -1
    ELSE IF a[k] > b[k] THEN 1
    ELSE NCmpFrom(a, b, k-1)
NCmp(a, b) == IF Len(a) < Len(b) THEN -1
              ELSE IF Len(a) > Len(b) THEN 1
              ELSE NCmpFrom(a, b, Len(a))

RECURSIVE NSubFrom(_,_,_,_)
NSubFrom(a, b, k, borrow) ==   \* a >= b assumed
    IF k > Len(a) THEN <<>>
    ELSE LET d == a[k] - NLimb(b,k) - borrow
         IN IF d < 0 THEN <<d + Base>> \o NSubFrom(a, b, k+1, 1)
                     ELSE <<d>> \o NSubFrom(a, b, k+1, 0)
NSub(a, b) == NTrim(NSubFrom(a, b, 1, 0))

RECURSIVE NMulSmallFrom(_,_,_,_)
NMulSmallFrom(a, d, k, carry) ==   \* d \in 0..Base-1
    IF k > Len(a)
    THEN IF carry = 0 THEN <<>> ELSE <<carry>>
    ELSE LET p == a[k]*d + carry
         IN <<p % Base>> \o NMulSmallFrom(a, d, k+1, p \div Base)
NMulSmall(a, d) == IF d = 0 THEN <<>> ELSE NMulSmallFrom(a, d, 1, 0)

NShift(a, n) == IF a = <<>> THEN a ELSE [k \in 1..n |-> 0] \o a

RECURSIVE NMulFrom(_,_,_)
NMulFrom(a, b, k) ==
    IF k > Len(b) THEN <<>>
    ELSE NAdd(NShift(NMulSmall(a, b[k]), k-1), NMulFrom(a, b, k+1))
NMul(a, b) == IF a = <<>> \/ b = <<>> THEN <<>> ELSE NMulFrom(a, b, 1)

(* largest q \in lo..hi with q*b <= r, by bisection (r < Base*b assumed) *)
RECURSIVE NQuotDigit(_,_,_,_)
NQuotDigit(r, b, lo, hi) ==
    IF lo = hi THEN lo
    ELSE LET mid == (lo + hi + 1) \div 2
         IN IF NCmp(NMulSmall(b, mid), r) <= 0
            THEN NQuotDigit(r, b, mid, hi)
            ELSE NQuotDigit(r, b, lo, mid-1)

(* schoolbook long division, most significant limb first;                  *)
(* state: k = next limb of a to bring down, q = quotient so far (MS first),*)
(* r = running remainder                                                   *)
RECURSIVE NDivModFrom(_,_,_,_,_)
NDivModFrom(a, b, k, q, r) ==
    IF k = 0 THEN <<q, r>>
    ELSE LET r1 == NTrim(<<a[k]>> \o r)
             d  == NQuotDigit(r1, b, 0, Base-1)
             r2 == NSub(r1, NMulSmall(b, d))
         IN NDivModFrom(a, b, k-1, <<d>> \o q, r2)
NDivMod(a, b) ==  \* b # <<>>; result <<quotient, remainder>>
    LET qr == NDivModFrom(a, b, Len(a), <<>>, <<>>)
    IN <<NTrim(qr[1]), qr[2]>>

RECURSIVE NGcd(_,_)
NGcd(a, b) == IF b = <<>> THEN a ELSE NGcd(b, NDivMod(a, b)[2])

----------------------------------------------------------------------------
(* signed *)

BZero == <<0, <<>>>>
BMk(s, l) == IF l = <<>> THEN BZero ELSE <<s, l>>

RECURSIVE NFromNat(_)
NFromNat(n) == IF n = 0 THEN <<>> ELSE <<n % Base>> \o NFromNat(n \div Base)
BFromInt(n) == IF n = 0 THEN BZero
               ELSE IF n > 0 THEN <<1, NFromNat(n)>> ELSE <<-1, NFromNat(-n)>>
BOne == BFromInt(1)

BNeg(x) == <<-x[1], x[2]>>
BAbs(x) == <<x[1]*x[1], x[2]>>
BSign(x) == x[1]

BAdd(x, y) ==
    IF x[1] = 0 THEN y
    ELSE IF y[1] = 0 THEN x
    ELSE IF x[1] = y[1] THEN <<x[1], NAdd(x[2], y[2])>>
    ELSE LET c == NCmp(x[2], y[2])
         IN IF c = 0 THEN BZero
            ELSE IF c > 0 THEN <<x[1], NSub(x[2], y[2])>>
            ELSE <<y[1], NSub(y[2], x[2])>>
BSub(x, y) == BAdd(x, BNeg(y))
BMul(x, y) == BMk(x[1]*y[1], NMul(x[2], y[2]))
BCmp(x, y) == IF x[1] # y[1] THEN (IF x[1] < y[1] THEN -1 ELSE 1)
              ELSE IF x[1] = 0 THEN 0
              ELSE x[1] * NCmp(x[2], y[2])
(* truncated division (towards zero), remainder has the sign of x *)
BDivMod(x, y) == LET qr == NDivMod(x[2], y[2])
                 IN <<BMk(x[1]*y[1], qr[1]), BMk(x[1], qr[2])>>
BGcd(x, y) == BMk(1, NGcd(x[2], y[2]))    \* >= 0; gcd(0,0) = 0
(* exact quotient (y divides x) *)
BQuot(x, y) == BDivMod(x, y)[1]

RECURSIVE BPowNat(_,_)
BPowNat(x, n) == IF n = 0 THEN BOne ELSE BMul(x, BPowNat(x, n-1))

(* small TLC integer if it fits, used for printing / indices *)
RECURSIVE NToNat(_,_)
NToNat(l, k) == IF k > Len(l) THEN 0 ELSE l[k] + Base * NToNat(l, k+1)
BToInt(x) == x[1] * NToNat(x[2], 1)     \* caller guarantees |x| < 2^31
=============================================================================
